package main

// Pure bit-vector translation of specification expressions, used for
// statement-level lemmas (speclemma ... mode bv): every variable is a 64-bit
// unsigned bit-vector constrained to its declared width, + - * / % are the
// unsigned bit-vector operations (the lemmas keep all values far below 2^64),
// xorNN/andNN/orNN/shlNN/shrNN are the bit-vector operations, and `define`d
// spec functions and preds are expanded in place. The resulting query is QF_BV.

import (
	"fmt"
	"math/big"
	"strconv"
	"strings"
)

type bvEnv struct {
	db   *SpecDB
	vars map[string]string // name -> BV64 term
	d    int
}

func bv64(n *big.Int) string {
	return fmt.Sprintf("(_ bv%s 64)", new(big.Int).Mod(n, new(big.Int).Lsh(big.NewInt(1), 64)).String())
}

// bvExpr returns (term, isBool).
func (e *bvEnv) ev(x SExpr) (string, bool) {
	e.d++
	if e.d > 200000 {
		panic("bv translation too deep")
	}
	switch t := x.(type) {
	case *SInt:
		n, ok := new(big.Int).SetString(t.V, 0)
		if !ok {
			panic("bad integer " + t.V)
		}
		return bv64(n), false
	case *SBool:
		if t.V {
			return "true", true
		}
		return "false", true
	case *SIdent:
		if v, ok := e.vars[t.Name]; ok {
			return v, false
		}
		if c, ok := e.db.Consts[t.Name]; ok {
			ce, err := parseSpecExpr(c)
			if err != nil {
				panic(err.Error())
			}
			return e.ev(ce)
		}
		panic("bv: unknown identifier " + t.Name)
	case *SUn:
		a, ab := e.ev(t.X)
		switch t.Op {
		case "!":
			if !ab {
				panic("bv: ! on non-bool")
			}
			return "(not " + a + ")", true
		case "-":
			return "(bvneg " + a + ")", false
		}
	case *SCond:
		c, _ := e.ev(t.C)
		a, ab := e.ev(t.A)
		b, _ := e.ev(t.B)
		return "(ite " + c + " " + a + " " + b + ")", ab
	case *SBin:
		switch t.Op {
		case "&&", "||", "==>", "<==>":
			a, _ := e.ev(t.X)
			b, _ := e.ev(t.Y)
			op := map[string]string{"&&": "and", "||": "or", "==>": "=>", "<==>": "="}[t.Op]
			return "(" + op + " " + a + " " + b + ")", true
		}
		a, _ := e.ev(t.X)
		b, _ := e.ev(t.Y)
		switch t.Op {
		case "==":
			return "(= " + a + " " + b + ")", true
		case "!=":
			return "(not (= " + a + " " + b + "))", true
		case "<":
			return "(bvult " + a + " " + b + ")", true
		case "<=":
			return "(bvule " + a + " " + b + ")", true
		case ">":
			return "(bvugt " + a + " " + b + ")", true
		case ">=":
			return "(bvuge " + a + " " + b + ")", true
		case "+":
			return "(bvadd " + a + " " + b + ")", false
		case "-":
			return "(bvsub " + a + " " + b + ")", false
		case "*":
			return "(bvmul " + a + " " + b + ")", false
		case "/":
			return "(bvudiv " + a + " " + b + ")", false
		case "%":
			return "(bvurem " + a + " " + b + ")", false
		case "<<":
			return "(bvshl " + a + " " + b + ")", false
		case ">>":
			return "(bvlshr " + a + " " + b + ")", false
		case "&":
			return "(bvand " + a + " " + b + ")", false
		case "|":
			return "(bvor " + a + " " + b + ")", false
		case "^":
			return "(bvxor " + a + " " + b + ")", false
		}
	case *SCall:
		var as []string
		arg := func(i int) string {
			s, _ := e.ev(t.Args[i])
			return s
		}
		name := t.Fn
		op := strings.TrimRight(name, "0123456789")
		if w, err := strconv.Atoi(name[len(op):]); err == nil && len(t.Args) == 2 {
			mask := bv64(new(big.Int).Sub(pow2(w), big.NewInt(1)))
			switch op {
			case "xor":
				return "(bvxor " + arg(0) + " " + arg(1) + ")", false
			case "and":
				return "(bvand " + arg(0) + " " + arg(1) + ")", false
			case "or":
				return "(bvor " + arg(0) + " " + arg(1) + ")", false
			case "shl":
				return "(bvand (bvshl " + arg(0) + " " + arg(1) + ") " + mask + ")", false
			case "shr":
				return "(bvlshr " + arg(0) + " " + arg(1) + ")", false
			}
		}
		switch name {
		case "pow2":
			s := arg(0)
			return "(bvshl (_ bv1 64) " + s + ")", false
		case "min":
			return "(ite (bvule " + arg(0) + " " + arg(1) + ") " + arg(0) + " " + arg(1) + ")", false
		case "max":
			return "(ite (bvuge " + arg(0) + " " + arg(1) + ") " + arg(0) + " " + arg(1) + ")", false
		}
		var params []string
		var body SExpr
		if p, ok := e.db.Preds[name]; ok {
			params, body = p.Params, p.Body
		} else if d, ok := e.db.Defines[name]; ok {
			params, body = d.Params, d.Body
		} else {
			panic("bv: unknown function " + name)
		}
		if len(params) != len(t.Args) {
			panic("bv: arity of " + name)
		}
		for i := range t.Args {
			as = append(as, arg(i))
		}
		// bind arguments with let so that nested applications share subterms
		sub := &bvEnv{db: e.db, vars: map[string]string{}, d: e.d}
		var binds []string
		for i, p := range params {
			e.d++
			sym := fmt.Sprintf("a%d_%s", e.d, mangle(p))
			sub.vars[p] = sym
			binds = append(binds, "("+sym+" "+as[i]+")")
		}
		sub.d = e.d
		s, b := sub.ev(body)
		e.d = sub.d
		return "(let (" + strings.Join(binds, " ") + ") " + s + ")", b
	}
	panic(fmt.Sprintf("bv: unsupported expression %T", x))
}

// bvLemmaScript renders a speclemma as a QF_BV query (goal negated).
func bvLemmaScript(db *SpecDB, c *Contract, goal SExpr) (script string, err error) {
	defer func() {
		if r := recover(); r != nil {
			err = fmt.Errorf("%v", r)
		}
	}()
	var sb strings.Builder
	sb.WriteString("(set-logic QF_BV)\n")
	env := &bvEnv{db: db, vars: map[string]string{}}
	for _, sv := range c.SpecVars {
		sym := "l_" + mangle(sv[0])
		fmt.Fprintf(&sb, "(declare-const %s (_ BitVec 64))\n", sym)
		w, _ := strconv.Atoi(sv[1])
		if w > 0 && w < 64 {
			fmt.Fprintf(&sb, "(assert (bvult %s %s))\n", sym, bv64(pow2(w)))
		}
		env.vars[sv[0]] = sym
	}
	for _, r := range c.Requires {
		t, _ := env.ev(r.Expr)
		fmt.Fprintf(&sb, "(assert %s)\n", t)
	}
	g, _ := env.ev(goal)
	fmt.Fprintf(&sb, "(assert (not %s))\n(check-sat)\n", g)
	return sb.String(), nil
}

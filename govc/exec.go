package main

// Forward symbolic execution of go/ssa (NaiveForm) functions. One SMT script
// per acyclic path between cut points (entry, annotated loop heads, exits).

import (
	"time"
	"go/ast"
	"fmt"
	"go/constant"
	"go/token"
	"go/types"
	"math/big"
	"sort"
	"strings"

	"golang.org/x/tools/go/ssa"
)

type Kont func(st *State, rets []Val)

type LoopInfo struct {
	ord  map[*ssa.BasicBlock]int
	body map[*ssa.BasicBlock]map[*ssa.BasicBlock]bool
}

type Frame struct {
	fn       *ssa.Function
	contract *Contract
	loops    *LoopInfo
	depth    int
	params   map[string]Val
	visits   map[*ssa.BasicBlock]int
	id       int
}

type PathResult struct {
	Fn     string
	Desc   string
	Script []Cmd
	Notes  []string
}

type Exec struct {
	prog     *ssa.Program
	db       *SpecDB
	fset     *token.FileSet
	paths    []*PathResult
	top      *ssa.Function
	topC     *Contract
	entry    *Snapshot
	npaths   int
	nsteps   int
	maxPaths int
	errors   []string
	loopCache map[*ssa.Function]*LoopInfo
	frameSeq int
	exitPaths int
	curProps []string
	topParams map[string]Val
	usedUnknown map[string]bool
	usedContracts map[string]bool
	aborted bool
	trackCache map[*Contract]map[string]bool
	replayBase *ReplayInfo
	replayCur  *ReplayInfo
	callCovers bool // thorough tier: consistency cover before/after every contract application
	errSiteCache map[*Contract]map[string]bool
	retSiteCache map[*Contract]map[string]bool
	curFr *Frame
	wcount int
	topFrame *frameDecl
	curCall ssa.Instruction
	siteOrd map[*ssa.Function]map[ssa.Instruction]int
	lemmaKey string
	pendingBinds []Val
	pendingFn *ssa.Function
	callReqHit map[*Clause]bool
	started time.Time
	prop string // property being decided: only clauses tagged with it (or untagged) are active
}

// active: per-property slicing of contracts. In a run for property P a clause
// is assumed/checked iff it is untagged or tagged P; clauses serving only other
// properties are ignored, so a broken clause alarms exactly the properties it
// is tagged with.
func (ex *Exec) active(props []string) bool {
	return ex.prop == "" || len(props) == 0 || hasProp(props, ex.prop)
}

const maxStepsPerFunc = 400000

// fnBudget bounds the symbolic exploration of one function (wall clock). On the
// unchanged tree the slowest function (cmd/age main) needs a few seconds; a
// change that adds an unannotated loop must end in "undecided", not in a check
// that never finishes.
var fnBudget = 90 * time.Second

func (ex *Exec) loopsOf(fn *ssa.Function) *LoopInfo {
	if li, ok := ex.loopCache[fn]; ok {
		return li
	}
	li := &LoopInfo{ord: map[*ssa.BasicBlock]int{}, body: map[*ssa.BasicBlock]map[*ssa.BasicBlock]bool{}}
	var heads []*ssa.BasicBlock
	for _, b := range fn.Blocks {
		for _, s := range b.Succs {
			if s.Dominates(b) {
				if li.body[s] == nil {
					li.body[s] = map[*ssa.BasicBlock]bool{s: true}
					heads = append(heads, s)
				}
				// natural loop of back edge b->s
				stack := []*ssa.BasicBlock{b}
				for len(stack) > 0 {
					x := stack[len(stack)-1]
					stack = stack[:len(stack)-1]
					if li.body[s][x] {
						continue
					}
					li.body[s][x] = true
					stack = append(stack, x.Preds...)
				}
			}
		}
	}
	sort.Slice(heads, func(i, j int) bool { return heads[i].Index < heads[j].Index })
	for i, h := range heads {
		li.ord[h] = i + 1
	}
	ex.loopCache[fn] = li
	return li
}

// ---------------------------------------------------------------- values

func (ex *Exec) zeroVal(st *State, t types.Type) Val {
	return TV(ZeroOf(sortOf(t)), t)
}

func (ex *Exec) constVal(st *State, c *ssa.Const) Val {
	t := c.Type()
	if c.Value == nil {
		return ex.zeroVal(st, t)
	}
	switch c.Value.Kind() {
	case constant.Bool:
		return TV(BoolLit(constant.BoolVal(c.Value)), t)
	case constant.Int:
		n, ok := new(big.Int).SetString(c.Value.ExactString(), 10)
		if !ok {
			n = big.NewInt(0)
		}
		return TV(BigLit(n), t)
	case constant.String:
		return TV(st.strLit(constant.StringVal(c.Value)), t)
	}
	return TV(st.fresh("const", sortOf(t)), t)
}

func (ex *Exec) get(st *State, v ssa.Value) Val {
	switch x := v.(type) {
	case *ssa.Const:
		return ex.constVal(st, x)
	case *ssa.Global:
		return Val{Kind: VGlobalPtr, Global: x, Ty: x.Type()}
	case *ssa.Function:
		return Val{Kind: VClosure, Fn: x, Ty: x.Type()}
	case *ssa.Builtin:
		return Val{Kind: VClosure, Ty: x.Type()}
	}
	if r, ok := st.regs[v]; ok {
		return r
	}
	// free variables of closures are bound at inline time; anything else is
	// a use-before-def caused by an unmodelled instruction
	st.note(fmt.Sprintf("undefined ssa value %s in %s", v.Name(), v.Parent()))
	return ex.havocVal(st, v.Name(), v.Type())
}

// havocVal returns an unconstrained value of Go type t (with its type invariant).
func (ex *Exec) havocVal(st *State, hint string, t types.Type) Val {
	if tup, ok := t.(*types.Tuple); ok {
		var vs []Val
		for i := 0; i < tup.Len(); i++ {
			vs = append(vs, ex.havocVal(st, fmt.Sprintf("%s_%d", hint, i), tup.At(i).Type()))
		}
		return Val{Kind: VTuple, Tuple: vs, Ty: t}
	}
	x := st.fresh(hint, sortOf(t))
	ex.assumeTypeInv(st, x, t)
	return TV(x, t)
}

func (ex *Exec) assumeTypeInv(st *State, x Term, t types.Type) {
	switch x.Sort {
	case SortInt:
		if isInteger(t) {
			st.assume(rangeFact(x, t))
		}
	case SortSlice:
		st.assume(sliceInv(x))
	case SortBytes:
		if x.S != BEmpty.S && !strings.HasPrefix(x.S, "lit_") {
			st.assume(Le(BLen(x), BigLit(pow2(56))))
		}
	}
}

// knownVal: pointer-like values read from memory or returned by callees
// denote already-allocated objects.
func (ex *Exec) knownVal(st *State, x Term, t types.Type) {
	switch x.Sort {
	case SortInt:
		switch t.Underlying().(type) {
		case *types.Pointer, *types.Map, *types.Chan, *types.Signature:
			st.known(x)
		}
	case SortSlice:
		st.known(SlRg(x))
	case SortIface:
		st.known(IfVal(x))
	}
}

func sliceInv(s Term) Term {
	return And(Le(IntLit(0), SlOff(s)), Le(IntLit(0), SlLen(s)), Le(SlLen(s), SlCap(s)),
		Le(SlCap(s), BigLit(pow2(56))), Ge(SlRg(s), IntLit(0)),
		Implies(Eq(SlRg(s), IntLit(0)), Eq(SlCap(s), IntLit(0))))
}

// memName is the region-memory heap for an element sort.
func memName(elemSort string) string { return "M|" + elemSort }
func memSort(elemSort string) string { return ArraySort(ArraySort(elemSort)) }

func (ex *Exec) regionArr(st *State, snap *Snapshot, rg Term, elemSort string) Term {
	return Select(st.heapAt(snap, memName(elemSort), memSort(elemSort)), rg)
}

// bytesOfSlice is the abstract content of a byte slice in the given snapshot.
func (ex *Exec) bytesOfSlice(st *State, snap *Snapshot, s Term) Term {
	return BOf(ex.regionArr(st, snap, SlRg(s), SortInt), SlOff(s), SlLen(s))
}

// ---------------------------------------------------------------- checks

func (ex *Exec) check(st *State, fr *Frame, class, label string, goal Term, props []string, info, src string) {
	name := fmt.Sprintf("%s/%s#%s", funcKey(ex.top), class, label)
	if fr != nil && fr.fn != ex.top && fr.depth > 0 {
		name = fmt.Sprintf("%s/%s#%s@%s", funcKey(ex.top), class, label, shortFn(fr.fn))
	}
	if class == "safety" && ex.topC != nil && ex.topC.NoSafety {
		// run-time safety of this function is declared out of scope (listed as
		// an unchecked assumption in the evidence): the check is assumed
		if goal.B != 1 {
			st.assume(goal)
		}
		return
	}
	if !ex.active(props) {
		// obligations of other properties are discharged in those properties'
		// runs. Here they are neither reported NOR ASSUMED: assuming an
		// obligation that a changed body no longer meets would make the rest of
		// the path infeasible (or this property's clauses vacuously true) and
		// hide a violation of the property being decided.
		return
	}
	if len(props) == 0 && ex.prop != "" {
		// untagged clauses (helper invariants, preconditions) are part of
		// every property's proof: in this run they count for this property
		props = []string{ex.prop}
	}
	c := &Check{Name: name, Class: class, Fn: funcKey(ex.top), Props: props, Goal: goal.S, Trivial: goal.B == 1,
		Info: info, Src: src, Path: strings.Join(st.path, ",")}
	switch class {
	case "post":
		c.Replay = ex.replayCur
	case "safety":
		c.Replay = ex.replayBase
	}
	st.script = append(st.script, Cmd{Check: c})
}

func (ex *Exec) cover(st *State, label string) {
	name := fmt.Sprintf("%s/cover#%s", funcKey(ex.top), label)
	c := &Check{Name: name, Class: "cover", Fn: funcKey(ex.top), ExpectSat: true, Goal: "false", Path: strings.Join(st.path, ",")}
	st.script = append(st.script, Cmd{Check: c})
}

func funcKey(fn *ssa.Function) string {
	if curLemmaKey != "" {
		return curLemmaKey
	}
	return fn.String()
}

var curLemmaKey string

func shortFn(fn *ssa.Function) string {
	s := fn.String()
	if i := strings.LastIndex(s, "/"); i >= 0 {
		s = s[i+1:]
	}
	return s
}

func (ex *Exec) endPath(st *State, how string) {
	ex.npaths++
	st.path = append(st.path, how)
	ex.paths = append(ex.paths, &PathResult{Fn: funcKey(ex.top), Desc: strings.Join(st.path, ","), Script: st.script, Notes: st.notes})
}

// safetyProps: a run-time failure (index, nil, overflow, explicit panic) in a
// function breaks C14 and every property the function's contract serves - a
// panic on a valid input is a refusal of that input.
func (ex *Exec) safetyProps() []string {
	m := map[string]bool{"C14": true}
	if ex.topC != nil {
		for p := range ex.topC.Props {
			m[p] = true
		}
	}
	return sortedKeys(m)
}

// ---------------------------------------------------------------- driver

func (ex *Exec) newFrame(fn *ssa.Function, c *Contract, depth int) *Frame {
	ex.frameSeq++
	return &Frame{fn: fn, contract: c, loops: ex.loopsOf(fn), depth: depth, params: map[string]Val{}, visits: map[*ssa.BasicBlock]int{}, id: ex.frameSeq}
}

// runFunc executes fn's body (used for the function under verification and
// for inlined callees). args includes the receiver first.
func (ex *Exec) runFunc(st *State, fn *ssa.Function, c *Contract, args []Val, binds []Val, depth int, k Kont) {
	if len(fn.Blocks) == 0 {
		st.note("no body for " + fn.String())
		k(st, ex.havocResults(st, fn.Signature))
		return
	}
	fr := ex.newFrame(fn, c, depth)
	for i, p := range fn.Params {
		if i < len(args) {
			st.regs[p] = args[i]
			fr.params[p.Name()] = args[i]
		}
	}
	for i, fv := range fn.FreeVars {
		if i < len(binds) {
			st.regs[fv] = binds[i]
		}
	}
	st.defers = append(st.defers, nil)
	ex.runBlock(st, fr, fn.Blocks[0], nil, func(st2 *State, rets []Val) {
		st2.defers = st2.defers[:len(st2.defers)-1]
		k(st2, rets)
	})
}

func (ex *Exec) havocResults(st *State, sig *types.Signature) []Val {
	var out []Val
	for i := 0; i < sig.Results().Len(); i++ {
		out = append(out, ex.havocVal(st, "res", sig.Results().At(i).Type()))
	}
	return out
}

func loopKey(fr *Frame, n int) string { return fmt.Sprintf("%d/%d", fr.id, n) }

func (ex *Exec) runBlock(st *State, fr *Frame, b *ssa.BasicBlock, prev *ssa.BasicBlock, k Kont) {
	if ex.aborted {
		return
	}
	if ex.npaths > ex.maxPaths {
		if ex.npaths == ex.maxPaths+1 {
			ex.errors = append(ex.errors, fmt.Sprintf("%s: path budget %d exceeded (needs abstraction)", funcKey(ex.top), ex.maxPaths))
			ex.npaths++
		}
		return
	}
	// leaving loops: forget cut state for loops whose body we are no longer in
	for h, n := range fr.loops.ord {
		key := loopKey(fr, n)
		if st.inLoop[key] && !fr.loops.body[h][b] {
			delete(st.inLoop, key)
			delete(st.variant, key)
		}
	}
	if n, ok := fr.loops.ord[b]; ok {
		var spec *LoopSpec
		if fr.contract != nil {
			spec = fr.contract.Loops[n]
		}
		if spec != nil && len(spec.Invariants) > 0 && !spec.Unroll {
			key := loopKey(fr, n)
			if st.inLoop[key] {
				// back edge: preservation
				st.path = append(st.path, fmt.Sprintf("loop%d.back", n))
				ex.checkInvariants(st, fr, b, n, spec, "inv-pres")
				ex.loopFrame(st, fr, n, "inv-pres", true)
				if spec.Decreases != nil {
					env := ex.invEnv(st, fr)
					env.loopHead = b
					v, err := ex.evalSpec(spec.Decreases.Expr, env)
					if err != nil {
						ex.errors = append(ex.errors, fmt.Sprintf("%s: loop %d decreases: %v", fr.fn, n, err))
					} else {
						old := st.variant[key]
						ex.check(st, fr, "dec", fmt.Sprintf("loop%d", n), And(Lt(v.T, old), Ge(old, IntLit(0))),
							mergeProps(spec.Decreases.Props, []string{"C14"}), "variant "+spec.Decreases.Text+" decreases and is bounded below", spec.Decreases.Src)
					}
				}
				ex.endPath(st, "cut")
				return
			}
			st.path = append(st.path, fmt.Sprintf("loop%d.enter", n))
			ex.checkInvariants(st, fr, b, n, spec, "inv-init")
			ex.loopFrame(st, fr, n, "inv-init", true)
			dirty := st.epochDirty
			ex.havocLoop(st, fr, b)
			ex.loopFrame(st, fr, n, "", false)
			if ex.topFrame != nil && !ex.topFrame.all && fr.depth == 0 {
				st.epochDirty = dirty // this havoc is covered by the assumed loop frame
			}
			env := ex.invEnv(st, fr)
			env.loopHead = b
			for _, inv := range spec.Invariants {
				t, err := ex.evalSpecBool(inv.Expr, env)
				if err != nil {
					ex.errors = append(ex.errors, fmt.Sprintf("%s: loop %d invariant %s: %v", fr.fn, n, inv.Label, err))
					continue
				}
				st.assume(t)
			}
			if spec.Decreases != nil {
				v, err := ex.evalSpec(spec.Decreases.Expr, env)
				if err == nil {
					st.variant[key] = v.T
				} else {
					ex.errors = append(ex.errors, fmt.Sprintf("%s: loop %d decreases: %v", fr.fn, n, err))
				}
			}
			st.inLoop[key] = true
		} else {
			// unrolled / unannotated loop: bounded number of visits per path
			key := "visits:" + loopKey(fr, n)
			st.callN[key]++
			limit := 4096
			if spec == nil || !spec.Unroll {
				limit = 24
			}
			if st.callN[key] > limit {
				msg := fmt.Sprintf("%s: loop %d of %s is neither annotated with an invariant nor unrollable (visited %d times on one path)", funcKey(ex.top), n, shortFn(fr.fn), limit)
				dup := false
				for _, e := range ex.errors {
					if e == msg {
						dup = true
					}
				}
				if !dup {
					ex.errors = append(ex.errors, msg)
				}
				ex.aborted = true
				return
			}
		}
	}
	ex.step(st, fr, b, 0, prev, k)
}

func mergeProps(a, b []string) []string {
	m := map[string]bool{}
	for _, x := range a {
		m[x] = true
	}
	for _, x := range b {
		m[x] = true
	}
	return sortedKeys(m)
}

func (ex *Exec) checkInvariants(st *State, fr *Frame, head *ssa.BasicBlock, n int, spec *LoopSpec, class string) {
	env := ex.invEnv(st, fr)
	env.loopHead = head
	for _, inv := range spec.Invariants {
		t, err := ex.evalSpecBool(inv.Expr, env)
		if err != nil {
			ex.errors = append(ex.errors, fmt.Sprintf("%s: loop %d invariant %s: %v", fr.fn, n, inv.Label, err))
			continue
		}
		ex.check(st, fr, class, fmt.Sprintf("loop%d.%s", n, inv.Label), t, inv.Props, inv.Text, inv.Src)
	}
}

// havocLoop forgets everything the loop body may change.
func (ex *Exec) havocLoop(st *State, fr *Frame, head *ssa.BasicBlock) {
	body := fr.loops.body[head]
	ms := newModSet()
	var blocks []*ssa.BasicBlock
	for b := range body {
		blocks = append(blocks, b)
	}
	sort.Slice(blocks, func(i, j int) bool { return blocks[i].Index < blocks[j].Index })
	for _, b := range blocks {
		for _, ins := range b.Instrs {
			switch x := ins.(type) {
			case *ssa.Store:
				if a, ok := x.Addr.(*ssa.Alloc); ok {
					if v, ok := st.regs[a]; ok && v.Kind == VCellPtr {
						st.cells[v.Cell] = ex.havocVal(st, v.Cell.Name, v.Cell.Ty)
						continue
					}
				}
				if fv, ok := x.Addr.(*ssa.FreeVar); ok {
					if v, ok := st.regs[fv]; ok && v.Kind == VCellPtr {
						st.cells[v.Cell] = ex.havocVal(st, v.Cell.Name, v.Cell.Ty)
						continue
					}
				}
			case *ssa.Next:
				if r, ok := x.Iter.(*ssa.Range); ok {
					p := st.fresh("iterpos", SortInt)
					st.assume(Ge(p, IntLit(0)))
					st.iters[r] = p
				}
			}
			ex.instrMods(ins, ms, 0)
			// execution counters of tracked call sites inside the loop
			var cc *ssa.CallCommon
			switch x := ins.(type) {
			case *ssa.Call:
				cc = &x.Call
			case *ssa.Defer:
				cc = &x.Call
			}
			if cc != nil {
				if hn := ex.siteCounterHeap(st, fr, ins, cc); hn != "" {
					ms.write(hn, SortInt)
				}
			}
			if cc != nil {
				if hn := ex.errSite(st, fr, ins, cc); hn != "" {
					ms.write(hn, SortIface)
				}
				if base := ex.retSite(st, fr, ins, cc); base != "" {
					res := cc.Signature().Results()
					for i := 0; i < res.Len(); i++ {
						ms.write(fmt.Sprintf("%s.%d", base, i), sortOf(res.At(i).Type()))
						if sl, ok := res.At(i).Type().Underlying().(*types.Slice); ok && sortOf(sl.Elem()) == SortInt {
							ms.write(fmt.Sprintf("%s.%d.bytes", base, i), SortBytes)
						}
					}
				}
			}
		}
	}
	// closures called in the loop may store to captured cells: handled by
	// instrMods marking cellsAll
	if ms.cellsAll {
		// only cells whose address escapes (captured by a closure or passed
		// to a callee) can be written by code outside the loop body's text
		var esc []*ssa.Alloc
		for a := range escapingAllocs(fr.fn) {
			esc = append(esc, a)
		}
		sort.Slice(esc, func(i, j int) bool { return esc[i].Pos() < esc[j].Pos() || (esc[i].Pos() == esc[j].Pos() && esc[i].Name() < esc[j].Name()) })
		for _, a := range esc {
			if v, ok := st.regs[a]; ok && v.Kind == VCellPtr {
				st.cells[v.Cell] = ex.havocVal(st, v.Cell.Name, v.Cell.Ty)
			}
		}
		for _, fv := range fr.fn.FreeVars {
			if v, ok := st.regs[fv]; ok && v.Kind == VCellPtr {
				st.cells[v.Cell] = ex.havocVal(st, v.Cell.Name, v.Cell.Ty)
			}
		}
	}
	ex.applyModSet(st, ms)
	st.bumpAlloc()
	// re-establish that havocked cells hold allocated ids
	var cs []*Cell
	for c := range st.cells {
		cs = append(cs, c)
	}
	sort.Slice(cs, func(i, j int) bool { return cs[i].ID < cs[j].ID })
	for _, c := range cs {
		if v := st.cells[c]; v.Kind == VTerm {
			ex.knownVal(st, v.T, c.Ty)
		}
	}
}

var escCache = map[*ssa.Function]map[*ssa.Alloc]bool{}

func escapingAllocs(fn *ssa.Function) map[*ssa.Alloc]bool {
	if m, ok := escCache[fn]; ok {
		return m
	}
	m := map[*ssa.Alloc]bool{}
	for _, b := range fn.Blocks {
		for _, ins := range b.Instrs {
			var ops []*ssa.Value
			switch x := ins.(type) {
			case *ssa.MakeClosure:
				for _, bv := range x.Bindings {
					if a, ok := bv.(*ssa.Alloc); ok {
						m[a] = true
					}
				}
			case *ssa.Call, *ssa.Defer, *ssa.Go, *ssa.Store, *ssa.MakeInterface, *ssa.Return, *ssa.Phi:
				ops = ins.Operands(ops)
				for i, op := range ops {
					if op == nil || *op == nil {
						continue
					}
					if st, ok := ins.(*ssa.Store); ok && i == 0 {
						_ = st
						continue // the address operand of a store is not an escape
					}
					if a, ok := (*op).(*ssa.Alloc); ok {
						m[a] = true
					}
				}
			}
		}
	}
	escCache[fn] = m
	return m
}

// ---------------------------------------------------------------- stepping

func (ex *Exec) step(st *State, fr *Frame, b *ssa.BasicBlock, idx int, prev *ssa.BasicBlock, k Kont) {
	for ; idx < len(b.Instrs); idx++ {
		ex.nsteps++
		if ex.nsteps%2048 == 0 && !ex.started.IsZero() && time.Since(ex.started) > fnBudget {
			if !ex.aborted {
				ex.errors = append(ex.errors, fmt.Sprintf("%s: exploration time budget of %s exceeded (a loop needs an invariant?)", funcKey(ex.top), fnBudget))
			}
			ex.aborted = true
			return
		}
		if ex.nsteps > maxStepsPerFunc {
			if ex.nsteps == maxStepsPerFunc+1 {
				ex.errors = append(ex.errors, fmt.Sprintf("%s: step budget exceeded (a loop needs an invariant?)", funcKey(ex.top)))
			}
			ex.aborted = true
			return
		}
		if ex.aborted {
			return
		}
		ins := b.Instrs[idx]
		switch x := ins.(type) {
		case *ssa.If:
			c := ex.get(st, x.Cond).T
			tb, fb := b.Succs[0], b.Succs[1]
			if c.B == 1 {
				ex.runBlock(st, fr, tb, b, k)
				return
			}
			if c.B == 2 {
				ex.runBlock(st, fr, fb, b, k)
				return
			}
			// a condition already decided on this path (the same term was
			// branched on before) has one feasible successor only
			if truth, ok := st.branchFact(c); ok {
				if truth {
					ex.runBlock(st, fr, tb, b, k)
				} else {
					ex.runBlock(st, fr, fb, b, k)
				}
				return
			}
			st2 := st.clone()
			st.assume(c)
			st.recordBranch(c, true)
			st.path = append(st.path, fmt.Sprintf("b%d:T", b.Index))
			ex.runBlock(st, fr, tb, b, k)
			st2.assume(Not(c))
			st2.recordBranch(c, false)
			st2.path = append(st2.path, fmt.Sprintf("b%d:F", b.Index))
			ex.runBlock(st2, fr, fb, b, k)
			return
		case *ssa.Jump:
			ex.runBlock(st, fr, b.Succs[0], b, k)
			return
		case *ssa.Return:
			var rets []Val
			for _, r := range x.Results {
				rets = append(rets, ex.get(st, r))
			}
			k(st, rets)
			return
		case *ssa.Panic:
			if !(ex.topC != nil && ex.topC.MayPanic) {
				ex.check(st, fr, "safety", fmt.Sprintf("panic.b%d", b.Index), FalseT, ex.safetyProps(), "explicit panic is unreachable", ex.pos(x.Pos()))
			}
			ex.endPath(st, "panic")
			return
		case *ssa.Call:
			// calls may fork (inlining): continue in the continuation
			i2 := idx
			ex.doCall(st, fr, x, x.Common(), func(st2 *State, rets []Val) {
				st2.regs[x] = packResults(rets, x.Type())
				ex.step(st2, fr, b, i2+1, prev, k)
			})
			return
		case *ssa.RunDefers:
			i2 := idx
			ex.runDefers(st, fr, func(st2 *State) {
				ex.step(st2, fr, b, i2+1, prev, k)
			})
			return
		default:
			ex.instr(st, fr, ins, prev)
		}
	}
}

func packResults(rets []Val, t types.Type) Val {
	if _, ok := t.(*types.Tuple); ok {
		return Val{Kind: VTuple, Tuple: rets, Ty: t}
	}
	if len(rets) == 1 {
		return rets[0]
	}
	return Val{Kind: VTuple, Tuple: rets, Ty: t}
}

func (ex *Exec) pos(p token.Pos) string {
	if !p.IsValid() {
		return ""
	}
	ps := ex.fset.Position(p)
	f := ps.Filename
	if i := strings.Index(f, "/repo/"); i >= 0 {
		f = f[i+6:]
	}
	return fmt.Sprintf("%s:%d", f, ps.Line)
}

func (ex *Exec) runDefers(st *State, fr *Frame, k func(*State)) {
	top := len(st.defers) - 1
	if top < 0 || len(st.defers[top]) == 0 {
		k(st)
		return
	}
	d := st.defers[top][len(st.defers[top])-1]
	st.defers[top] = st.defers[top][:len(st.defers[top])-1]
	ex.callValue(st, fr, nil, d.call, d.fn, d.args, func(st2 *State, _ []Val) {
		ex.runDefers(st2, fr, k)
	})
}

// ---------------------------------------------------------------- instructions

func (ex *Exec) instr(st *State, fr *Frame, ins ssa.Instruction, prev *ssa.BasicBlock) {
	switch x := ins.(type) {
	case *ssa.DebugRef:
	case *ssa.Alloc:
		st.regs[x] = ex.alloc(st, x)
	case *ssa.Store:
		ex.store(st, fr, ex.get(st, x.Addr), ex.get(st, x.Val), x.Pos())
	case *ssa.UnOp:
		st.regs[x] = ex.unop(st, fr, x)
	case *ssa.BinOp:
		st.regs[x] = ex.binop(st, fr, x.Op, ex.get(st, x.X), ex.get(st, x.Y), x.Type(), x.Pos(), x.Name())
	case *ssa.FieldAddr:
		st.regs[x] = ex.fieldAddr(st, fr, x)
	case *ssa.Field:
		st.note("Field on struct value: havoc")
		st.regs[x] = ex.havocVal(st, "field", x.Type())
	case *ssa.IndexAddr:
		st.regs[x] = ex.indexAddr(st, fr, x)
	case *ssa.Index:
		a := ex.get(st, x.X)
		i := ex.get(st, x.Index).T
		if a.Kind == VTerm && strings.HasPrefix(a.T.Sort, "(Array") {
			if arr, ok := x.X.Type().Underlying().(*types.Array); ok {
				ex.check(st, fr, "safety", "index."+x.Name(), And(Le(IntLit(0), i), Lt(i, IntLit(arr.Len()))), ex.safetyProps(), "array index in range", ex.pos(x.Pos()))
			}
			st.regs[x] = TV(Select(a.T, i), x.Type())
		} else {
			st.regs[x] = ex.havocVal(st, "index", x.Type())
		}
	case *ssa.Lookup:
		a := ex.get(st, x.X)
		if isString(x.X.Type()) {
			i := ex.get(st, x.Index).T
			ex.check(st, fr, "safety", "index."+x.Name(), And(Le(IntLit(0), i), Lt(i, BLen(a.T))), ex.safetyProps(), "string index in range", ex.pos(x.Pos()))
			st.regs[x] = TV(BAt(a.T, i), x.Type())
			st.assume(rangeFact(BAt(a.T, i), types.Typ[types.Uint8]))
		} else {
			st.note("map lookup: havoc")
			st.regs[x] = ex.havocVal(st, "lookup", x.Type())
		}
	case *ssa.Slice:
		st.regs[x] = ex.slice(st, fr, x)
	case *ssa.Extract:
		t := ex.get(st, x.Tuple)
		if t.Kind == VTuple && x.Index < len(t.Tuple) {
			st.regs[x] = t.Tuple[x.Index]
		} else {
			st.regs[x] = ex.havocVal(st, "extract", x.Type())
		}
	case *ssa.Phi:
		done := false
		for i, p := range x.Block().Preds {
			if p == prev {
				st.regs[x] = ex.get(st, x.Edges[i])
				done = true
				break
			}
		}
		if !done {
			st.regs[x] = ex.havocVal(st, "phi", x.Type())
		}
	case *ssa.MakeInterface:
		st.regs[x] = ex.makeInterface(st, ex.get(st, x.X), x.X.Type(), x.Type())
	case *ssa.ChangeInterface:
		v := ex.get(st, x.X)
		v.Ty = x.Type()
		st.regs[x] = v
	case *ssa.ChangeType:
		v := ex.get(st, x.X)
		v.Ty = x.Type()
		st.regs[x] = v
	case *ssa.Convert:
		st.regs[x] = ex.convert(st, fr, ex.get(st, x.X), x.X.Type(), x.Type())
	case *ssa.TypeAssert:
		st.regs[x] = ex.typeAssert(st, fr, x)
	case *ssa.MakeSlice:
		ln := ex.get(st, x.Len).T
		cp := ex.get(st, x.Cap).T
		elem := x.Type().Underlying().(*types.Slice).Elem()
		ex.check(st, fr, "safety", "makeslice."+x.Name(), And(Le(IntLit(0), ln), Le(ln, cp)), ex.safetyProps(), "make: 0 <= len <= cap", ex.pos(x.Pos()))
		rg := st.freshAlloc("mk")
		es := sortOf(elem)
		m := st.heap(memName(es), memSort(es))
		st.setHeap(memName(es), Store(m, rg, ZeroOf(ArraySort(es))))
		st.regs[x] = TV(MkSlice(rg, IntLit(0), ln, cp), x.Type())
	case *ssa.MakeClosure:
		fn := x.Fn.(*ssa.Function)
		var binds []Val
		for _, bv := range x.Bindings {
			binds = append(binds, ex.get(st, bv))
		}
		st.regs[x] = Val{Kind: VClosure, Fn: fn, Binds: binds, Ty: x.Type()}
	case *ssa.MakeMap:
		st.regs[x] = TV(st.freshAlloc("map"), x.Type())
	case *ssa.MapUpdate:
		st.note("map update ignored")
	case *ssa.Range:
		st.iters[x] = IntLit(0)
		st.regs[x] = ex.get(st, x.X)
	case *ssa.Next:
		st.regs[x] = ex.next(st, fr, x)
	case *ssa.Defer:
		top := len(st.defers) - 1
		var args []Val
		for _, a := range x.Call.Args {
			args = append(args, ex.get(st, a))
		}
		d := deferred{call: &x.Call, args: args}
		if !x.Call.IsInvoke() {
			d.fn = ex.get(st, x.Call.Value)
		} else {
			d.fn = ex.get(st, x.Call.Value)
		}
		st.defers[top] = append(st.defers[top], d)
	case *ssa.Go:
		st.note("go statement: not modelled")
		st.imprecise = true
	default:
		st.note(fmt.Sprintf("unmodelled instruction %T", ins))
		if v, ok := ins.(ssa.Value); ok {
			st.regs[v] = ex.havocVal(st, "unk", v.Type())
		}
		st.imprecise = true
	}
}

func (ex *Exec) alloc(st *State, x *ssa.Alloc) Val {
	et := x.Type().Underlying().(*types.Pointer).Elem()
	switch u := et.Underlying().(type) {
	case *types.Struct:
		obj := st.freshAlloc(x.Comment)
		ex.zeroStruct(st, obj, et, u)
		return TV(obj, x.Type())
	case *types.Array:
		rg := st.freshAlloc(x.Comment)
		es := sortOf(u.Elem())
		m := st.heap(memName(es), memSort(es))
		st.setHeap(memName(es), Store(m, rg, ZeroOf(ArraySort(es))))
		return TV(rg, x.Type())
	}
	st.ncell++
	c := &Cell{ID: st.ncell, Name: x.Comment, Ty: et}
	st.cells[c] = ex.zeroVal(st, et)
	return Val{Kind: VCellPtr, Cell: c, Ty: x.Type()}
}

func (ex *Exec) zeroStruct(st *State, obj Term, structTy types.Type, s *types.Struct) {
	for i := 0; i < s.NumFields(); i++ {
		f := s.Field(i)
		switch fu := f.Type().Underlying().(type) {
		case *types.Array:
			rg := ex.fieldRegion(st, obj, structTy, f)
			es := sortOf(fu.Elem())
			m := st.heap(memName(es), memSort(es))
			st.setHeap(memName(es), Store(m, rg, ZeroOf(ArraySort(es))))
		case *types.Struct:
			sub := ex.fieldRegion(st, obj, structTy, f)
			ex.zeroStruct(st, sub, f.Type(), fu)
		default:
			hn := fieldHeapName(structTy, f)
			fs := sortOf(f.Type())
			h := st.heap(hn, ArraySort(fs))
			st.setHeap(hn, Store(h, obj, ZeroOf(fs)))
		}
	}
}

// fieldRegion names the region (or sub-object) of an embedded array/struct field.
func (ex *Exec) fieldRegion(st *State, obj Term, structTy types.Type, f *types.Var) Term {
	fn := regionFn(structTy, f)
	if !st.decl[fn] {
		st.decl[fn] = true
		st.emit(fmt.Sprintf("(declare-fun %s (Int) Int)", fn))
	}
	t := app(SortInt, fn, obj)
	key := "rgfact:" + t.S
	if !st.decl[key] {
		st.decl[key] = true
		kind := typeIDByName("region:" + fn)
		st.assume(Eq(mkTerm("(rg.kind "+t.S+")", SortInt), IntLit(int64(kind))))
		st.assume(Eq(mkTerm("(rg.owner "+t.S+")", SortInt), obj))
		st.assume(Gt(t, IntLit(0)))
		// an embedded region is as old as the object that contains it
		st.assume(Eq(Ge(t, mkTerm("alloc0", SortInt)), Ge(obj, mkTerm("alloc0", SortInt))))
	}
	return t
}

func (ex *Exec) fieldAddr(st *State, fr *Frame, x *ssa.FieldAddr) Val {
	base := ex.get(st, x.X)
	s, sty, ok := structOf(x.X.Type())
	if !ok || base.Kind != VTerm {
		st.note("FieldAddr on unsupported base")
		st.imprecise = true
		return ex.havocVal(st, "fieldaddr", x.Type())
	}
	ex.nilCheck(st, fr, base.T, x.X, x.Pos())
	f := s.Field(x.Field)
	switch f.Type().Underlying().(type) {
	case *types.Array, *types.Struct:
		return TV(ex.fieldRegion(st, base.T, sty, f), x.Type())
	}
	return Val{Kind: VFieldPtr, Obj: base.T, Heap: fieldHeapName(sty, f), FieldTy: f.Type(), Ty: x.Type()}
}

func (ex *Exec) nilCheck(st *State, fr *Frame, p Term, v ssa.Value, pos token.Pos) {
	// receivers and fresh allocations are non-nil by construction
	if _, ok := v.(*ssa.Alloc); ok {
		return
	}
	if p.K != nil && p.K.Sign() != 0 {
		return
	}
	if ex.topC != nil && ex.topC.NoSafety {
		return
	}
	ex.check(st, fr, "safety", "nil."+v.Name(), Not(Eq(p, IntLit(0))), ex.safetyProps(), "nil dereference", ex.pos(pos))
}

func (ex *Exec) indexAddr(st *State, fr *Frame, x *ssa.IndexAddr) Val {
	base := ex.get(st, x.X)
	i := ex.get(st, x.Index).T
	switch u := x.X.Type().Underlying().(type) {
	case *types.Slice:
		if base.Kind != VTerm {
			break
		}
		ex.check(st, fr, "safety", "index."+x.Name(), And(Le(IntLit(0), i), Lt(i, SlLen(base.T))), ex.safetyProps(), "slice index in range", ex.pos(x.Pos()))
		return Val{Kind: VElemPtr, Rg: SlRg(base.T), Idx: Add(SlOff(base.T), i), ElemTy: u.Elem(), Ty: x.Type()}
	case *types.Pointer:
		if arr, ok := u.Elem().Underlying().(*types.Array); ok && base.Kind == VTerm {
			ex.check(st, fr, "safety", "index."+x.Name(), And(Le(IntLit(0), i), Lt(i, IntLit(arr.Len()))), ex.safetyProps(), "array index in range", ex.pos(x.Pos()))
			return Val{Kind: VElemPtr, Rg: base.T, Idx: i, ElemTy: arr.Elem(), Ty: x.Type()}
		}
	}
	st.note("IndexAddr on unsupported base")
	st.imprecise = true
	return ex.havocVal(st, "indexaddr", x.Type())
}

func (ex *Exec) load(st *State, fr *Frame, p Val, ty types.Type) Val {
	switch p.Kind {
	case VCellPtr:
		if v, ok := st.cells[p.Cell]; ok {
			return v
		}
		return ex.havocVal(st, p.Cell.Name, p.Cell.Ty)
	case VFieldPtr:
		fs := sortOf(p.FieldTy)
		h := st.heap(p.Heap, ArraySort(fs))
		v := Select(h, p.Obj)
		ex.assumeTypeInv(st, v, p.FieldTy)
		ex.knownVal(st, v, p.FieldTy)
		return TV(v, p.FieldTy)
	case VElemPtr:
		es := sortOf(p.ElemTy)
		v := Select(ex.regionArr(st, nil, p.Rg, es), p.Idx)
		ex.assumeTypeInv(st, v, p.ElemTy)
		ex.knownVal(st, v, p.ElemTy)
		return TV(v, p.ElemTy)
	case VGlobalPtr:
		return ex.loadGlobal(st, p.Global)
	case VTerm:
		// pointer to array: load whole array value; pointer to struct: opaque
		if et, ok := derefPtr(p.Ty); ok {
			if arr, ok := et.Underlying().(*types.Array); ok {
				es := sortOf(arr.Elem())
				return TV(ex.regionArr(st, nil, p.T, es), et)
			}
			if _, ok := et.Underlying().(*types.Struct); ok && strings.HasPrefix(p.T.S, "G_") {
				// struct value behind an immutable package-level pointer
				sym := "sv." + p.T.S
				st.declare(sym, SortInt)
				return TV(mkTerm(sym, SortInt), et)
			}
			if stt, ok := et.Underlying().(*types.Struct); ok && p.T.Sort == SortInt && flatStruct(stt) {
				// the VALUE of a flat struct: a new object id whose fields are
				// copies of the fields of *p (struct values are object ids)
				n := st.freshAlloc("structval")
				for i := 0; i < stt.NumFields(); i++ {
					f := stt.Field(i)
					hn := fieldHeapName(et, f)
					fs := sortOf(f.Type())
					h := st.heap(hn, ArraySort(fs))
					st.setHeap(hn, Store(h, n, Select(h, p.T)))
				}
				return TV(n, et)
			}
			if hn, fs, ok := ptrCellHeap(et); ok && p.T.Sort == SortInt {
				// pointer to a scalar / slice / string / interface variable: a
				// one-cell object in the heap of its sort
				v := Select(st.heap(hn, ArraySort(fs)), p.T)
				ex.assumeTypeInv(st, v, et)
				ex.knownVal(st, v, et)
				return TV(v, et)
			}
		}
	}
	st.note("load through unsupported pointer")
	return ex.havocVal(st, "load", ty)
}

func (ex *Exec) loadGlobal(st *State, g *ssa.Global) Val {
	et := g.Type().Underlying().(*types.Pointer).Elem()
	name := g.Pkg.Pkg.Path() + "." + g.Name()
	if ex.isImmutableGlobal(g) {
		first := !st.decl["G_"+mangle(name)]
		v := TV(st.sentinel(name, sortOf(et)), et)
		if first {
			ex.assumeTypeInv(st, v.T, et)
			ex.knownVal(st, v.T, et)
			for _, f := range ex.db.GlobalFacts[name] {
				env := &Env{ex: ex, st: st, vars: map[string]Val{"it": v}}
				t, err := ex.evalSpecBool(f, env)
				if err != nil {
					if et.Underlying() != nil && sortOf(et) != SortSlice && sortOf(et) != SortBytes {
						continue // literal facts apply to string / []byte globals only
					}
					ex.errors = append(ex.errors, fmt.Sprintf("global fact for %s: %v", name, err))
					continue
				}
				st.assume(t)
			}
		}
		return v
	}
	hn := "V|" + name
	t := st.heap(hn, sortOf(et))
	ex.assumeTypeInv(st, t, et)
	return TV(t, et)
}

// isImmutableGlobal: package-level error sentinels and other variables that
// no function in the loaded program assigns outside init.
func (ex *Exec) isImmutableGlobal(g *ssa.Global) bool {
	et := g.Type().Underlying().(*types.Pointer).Elem()
	if _, ok := et.Underlying().(*types.Interface); ok {
		return true
	}
	if strings.HasPrefix(g.Name(), "testOnly") || g.Name() == "stdinInUse" {
		return false
	}
	return true
}

func (ex *Exec) store(st *State, fr *Frame, p Val, v Val, pos token.Pos) {
	toTerm := func(want types.Type) (Term, bool) {
		if v.Kind == VTerm {
			return v.T, true
		}
		// executor-level values lose their identity in the heap
		t := st.fresh("opaque", sortOf(want))
		return t, true
	}
	switch p.Kind {
	case VCellPtr:
		st.cells[p.Cell] = v
	case VFieldPtr:
		t, _ := toTerm(p.FieldTy)
		fs := sortOf(p.FieldTy)
		if t.Sort != fs {
			t = st.fresh("opaque", fs)
		}
		ex.writeCheck(st, fr, p.Heap, p.Obj, TrueT, "field store", ex.pos(pos))
		h := st.heap(p.Heap, ArraySort(fs))
		st.setHeap(p.Heap, Store(h, p.Obj, t))
	case VElemPtr:
		t, _ := toTerm(p.ElemTy)
		es := sortOf(p.ElemTy)
		if t.Sort != es {
			t = st.fresh("opaque", es)
		}
		ex.writeCheck(st, fr, memName(es), p.Rg, TrueT, "element store", ex.pos(pos))
		m := st.heap(memName(es), memSort(es))
		st.setHeap(memName(es), Store(m, p.Rg, Store(Select(m, p.Rg), p.Idx, t)))
	case VGlobalPtr:
		et := p.Global.Type().Underlying().(*types.Pointer).Elem()
		name := "V|" + p.Global.Pkg.Pkg.Path() + "." + p.Global.Name()
		t, _ := toTerm(et)
		st.heap(name, sortOf(et))
		st.setHeap(name, t)
	case VTerm:
		if et, ok := derefPtr(p.Ty); ok {
			if arr, ok := et.Underlying().(*types.Array); ok && v.Kind == VTerm {
				es := sortOf(arr.Elem())
				m := st.heap(memName(es), memSort(es))
				st.setHeap(memName(es), Store(m, p.T, v.T))
				return
			}
			// struct copy: struct values are object ids into the field heaps
			if stt, ok := et.Underlying().(*types.Struct); ok && v.Kind == VTerm && v.T.Sort == SortInt && flatStruct(stt) {
				for i := 0; i < stt.NumFields(); i++ {
					f := stt.Field(i)
					hn := fieldHeapName(et, f)
					fs := sortOf(f.Type())
					ex.writeCheck(st, fr, hn, p.T, TrueT, "struct copy", ex.pos(pos))
					h := st.heap(hn, ArraySort(fs))
					st.setHeap(hn, Store(h, p.T, Select(h, v.T)))
				}
				return
			}
			if hn, fs, ok := ptrCellHeap(et); ok && p.T.Sort == SortInt {
				t, _ := toTerm(et)
				if t.Sort != fs {
					t = st.fresh("opaque", fs)
				}
				ex.writeCheck(st, fr, hn, p.T, TrueT, "store through pointer", ex.pos(pos))
				st.setHeap(hn, Store(st.heap(hn, ArraySort(fs)), p.T, t))
				return
			}
		}
		fallthrough
	default:
		st.note("store through unsupported pointer: havoc all")
		st.imprecise = true
		ex.havocAll(st, false)
	}
}

func (ex *Exec) unop(st *State, fr *Frame, x *ssa.UnOp) Val {
	v := ex.get(st, x.X)
	switch x.Op {
	case token.MUL:
		if v.Kind == VTerm {
			if _, ok := derefPtr(v.Ty); ok {
				if _, isArr := x.Type().Underlying().(*types.Array); !isArr {
					// *p for pointer-to-struct etc: opaque value
					ex.nilCheck(st, fr, v.T, x.X, x.Pos())
				}
			}
		}
		return ex.load(st, fr, v, x.Type())
	case token.NOT:
		return TV(Not(v.T), x.Type())
	case token.SUB:
		r := Neg(v.T)
		return TV(ex.wrapInt(st, fr, r, x.Type(), "neg."+x.Name(), x.Pos()), x.Type())
	case token.XOR:
		if isUnsigned(x.Type()) {
			_, hi := intRange(x.Type())
			return TV(Sub(BigLit(hi), v.T), x.Type())
		}
		return TV(Sub(Neg(v.T), IntLit(1)), x.Type())
	}
	st.note("unmodelled unary op " + x.Op.String())
	return ex.havocVal(st, "unop", x.Type())
}

// wrapInt applies the machine semantics of an arithmetic result of type ty:
// unsigned types wrap modulo 2^w; signed types get an overflow obligation.
func (ex *Exec) wrapInt(st *State, fr *Frame, r Term, ty types.Type, label string, pos token.Pos) Term {
	if !isInteger(ty) {
		return r
	}
	lo, hi := intRange(ty)
	if r.K != nil && r.K.Cmp(lo) >= 0 && r.K.Cmp(hi) <= 0 {
		return r
	}
	if isUnsigned(ty) {
		return ModE(r, pow2(intBits(ty)))
	}
	if !(ex.topC != nil && ex.topC.NoSafety) {
		ex.check(st, fr, "safety", "overflow."+label, And(Le(BigLit(lo), r), Le(r, BigLit(hi))), ex.safetyProps(), "signed arithmetic does not overflow", ex.pos(pos))
	}
	return r
}

func (ex *Exec) binop(st *State, fr *Frame, op token.Token, a, b Val, rty types.Type, pos token.Pos, iname string) Val {
	if a.Kind != VTerm || b.Kind != VTerm {
		// comparisons of function values etc. with nil
		if op == token.EQL || op == token.NEQ {
			isNilConst := func(v Val) bool { return v.Kind == VTerm && v.T.K != nil && v.T.K.Sign() == 0 }
			if a.Kind == VClosure && isNilConst(b) || b.Kind == VClosure && isNilConst(a) {
				nonnil := a.Kind == VClosure && a.Fn != nil || b.Kind == VClosure && b.Fn != nil
				if nonnil {
					return TV(BoolLit(op == token.NEQ), rty)
				}
			}
		}
		st.note("binop on executor-level value: havoc")
		return ex.havocVal(st, "binop", rty)
	}
	x, y := a.T, b.T
	lab := iname
	switch {
	case x.Sort == SortInt && y.Sort == SortInt:
		ty := a.Ty
		switch op {
		case token.ADD:
			return TV(ex.wrapInt(st, fr, Add(x, y), rty, lab, pos), rty)
		case token.SUB:
			return TV(ex.wrapInt(st, fr, Sub(x, y), rty, lab, pos), rty)
		case token.MUL:
			return TV(ex.wrapInt(st, fr, Mul(x, y), rty, lab, pos), rty)
		case token.QUO:
			ex.check(st, fr, "safety", "div."+lab, Not(Eq(y, IntLit(0))), ex.safetyProps(), "division by zero", ex.pos(pos))
			return TV(ex.wrapInt(st, fr, QuoT(x, y), rty, lab, pos), rty)
		case token.REM:
			ex.check(st, fr, "safety", "div."+lab, Not(Eq(y, IntLit(0))), ex.safetyProps(), "division by zero", ex.pos(pos))
			return TV(RemT(x, y), rty)
		case token.EQL:
			return TV(Eq(x, y), rty)
		case token.NEQ:
			return TV(Neq(x, y), rty)
		case token.LSS:
			return TV(Lt(x, y), rty)
		case token.LEQ:
			return TV(Le(x, y), rty)
		case token.GTR:
			return TV(Gt(x, y), rty)
		case token.GEQ:
			return TV(Ge(x, y), rty)
		case token.SHL:
			if y.K != nil && y.K.IsInt64() && y.K.Int64() >= 0 && y.K.Int64() < 512 {
				r := Mul(x, BigLit(pow2(int(y.K.Int64()))))
				if isUnsigned(rty) {
					return TV(ModE(r, pow2(intBits(rty))), rty)
				}
				return TV(ex.wrapInt(st, fr, r, rty, lab, pos), rty)
			}
			if x.K != nil && x.K.Cmp(big.NewInt(1)) == 0 {
				// 1 << y: pow2
				p := ex.pow2Term(st, y)
				if isUnsigned(rty) {
					return TV(ModE(p, pow2(intBits(rty))), rty)
				}
				return TV(ex.wrapInt(st, fr, p, rty, lab, pos), rty)
			}
		case token.SHR:
			if y.K != nil && y.K.IsInt64() && y.K.Int64() >= 0 && y.K.Int64() < 512 && (isUnsigned(ty) || (x.K != nil && x.K.Sign() >= 0)) {
				return TV(DivE(x, pow2(int(y.K.Int64()))), rty)
			}
			if y.K != nil && y.K.IsInt64() && y.K.Int64() >= 0 && y.K.Int64() < 512 {
				// signed >> k == floor division (Euclidean div by positive)
				return TV(DivE(x, pow2(int(y.K.Int64()))), rty)
			}
		case token.AND:
			// x & (2^k-1)
			if k, ok := lowMask(y); ok && isUnsigned(ty) {
				return TV(ModE(x, pow2(k)), rty)
			}
			if k, ok := lowMask(x); ok && isUnsigned(b.Ty) {
				return TV(ModE(y, pow2(k)), rty)
			}
			if x.K != nil && y.K != nil {
				return TV(BigLit(new(big.Int).And(x.K, y.K)), rty)
			}
		case token.OR:
			if x.K != nil && y.K != nil {
				return TV(BigLit(new(big.Int).Or(x.K, y.K)), rty)
			}
		case token.XOR:
			if x.K != nil && y.K != nil {
				return TV(BigLit(new(big.Int).Xor(x.K, y.K)), rty)
			}
		}
		// Bit operations that linear arithmetic cannot express become
		// applications of uninterpreted functions bvop.<op><width>: still a
		// function of the operands (so code and spec agree syntactically); their
		// bit-vector meaning is supplied in `mode bvbridge` (see DESIGN.md 2.3).
		if name := bvOpName(op); name != "" && isInteger(rty) {
			w := intBits(a.Ty)
			if w < intBits(rty) {
				w = intBits(rty)
			}
			r := ex.bvop(st, name, w, x, y)
			if op == token.SHL && intBits(rty) < w {
				r = ModE(r, pow2(intBits(rty)))
			}
			st.assume(rangeFact(r, rty))
			return TV(r, rty)
		}
		st.note("unmodelled integer op " + op.String() + " (int mode)")
		return ex.havocVal(st, "bitop", rty)
	case x.Sort == SortBool && y.Sort == SortBool:
		switch op {
		case token.EQL:
			return TV(Eq(x, y), rty)
		case token.NEQ:
			return TV(Neq(x, y), rty)
		case token.AND, token.LAND:
			return TV(And(x, y), rty)
		case token.OR, token.LOR:
			return TV(Or(x, y), rty)
		}
	case x.Sort == SortBytes && y.Sort == SortBytes:
		switch op {
		case token.ADD:
			// concatenation of two literals is the literal of the concatenation
			if sa, ok := ex.constString(st, a); ok {
				if sb, ok := ex.constString(st, b); ok {
					return TV(st.strLit(sa+sb), rty)
				}
			}
			return TV(BCat(x, y), rty)
		case token.EQL:
			return TV(Eq(x, y), rty)
		case token.NEQ:
			return TV(Neq(x, y), rty)
		}
	case x.Sort == y.Sort && strings.HasPrefix(x.Sort, "(Array") && (op == token.EQL || op == token.NEQ):
		// Go array values: equality ranges over the array's indices only
		if arr, ok := a.Ty.Underlying().(*types.Array); ok {
			var eq Term
			if arr.Len() <= 64 {
				var parts []Term
				for i := int64(0); i < arr.Len(); i++ {
					parts = append(parts, Eq(Select(x, IntLit(i)), Select(y, IntLit(i))))
				}
				eq = And(parts...)
			} else {
				eq = mkTerm(fmt.Sprintf("(forall ((j Int)) (=> (and (<= 0 j) (< j %d)) (= (select %s j) (select %s j))))", arr.Len(), x.S, y.S), SortBool)
			}
			if op == token.NEQ {
				eq = Not(eq)
			}
			return TV(eq, rty)
		}
	case x.Sort == y.Sort:
		switch op {
		case token.EQL:
			if x.Sort == SortSlice {
				// only comparison with nil is legal Go
				return TV(ex.sliceNilTest(x, y), rty)
			}
			return TV(Eq(x, y), rty)
		case token.NEQ:
			if x.Sort == SortSlice {
				return TV(Not(ex.sliceNilTest(x, y)), rty)
			}
			return TV(Neq(x, y), rty)
		}
	}
	st.note(fmt.Sprintf("unmodelled binop %s on %s,%s", op, x.Sort, y.Sort))
	return ex.havocVal(st, "binop", rty)
}

func bvOpName(op token.Token) string {
	switch op {
	case token.AND:
		return "and"
	case token.OR:
		return "or"
	case token.XOR:
		return "xor"
	case token.SHL:
		return "shl"
	case token.SHR:
		return "shr"
	case token.AND_NOT:
		return "andnot"
	}
	return ""
}

// bvop applies the uninterpreted bit operation name<w> (Int x Int -> Int).
func (ex *Exec) bvop(st *State, name string, w int, x, y Term) Term {
	fn := fmt.Sprintf("bvop.%s%d", name, w)
	st.useBvop(fn)
	return app(SortInt, fn, x, y)
}

func (ex *Exec) sliceNilTest(x, y Term) Term {
	if y.S == NilSlice.S {
		return Eq(SlRg(x), IntLit(0))
	}
	if x.S == NilSlice.S {
		return Eq(SlRg(y), IntLit(0))
	}
	return Eq(x, y)
}

func lowMask(t Term) (int, bool) {
	if t.K == nil || t.K.Sign() <= 0 {
		return 0, false
	}
	n := new(big.Int).Add(t.K, big.NewInt(1))
	if n.BitLen()-1 > 0 && new(big.Int).Lsh(big.NewInt(1), uint(n.BitLen()-1)).Cmp(n) == 0 {
		return n.BitLen() - 1, true
	}
	return 0, false
}

func (ex *Exec) pow2Term(st *State, y Term) Term {
	if !st.decl["pow2"] {
		st.decl["pow2"] = true
		st.emit("(declare-fun pow2 (Int) Int)")
		st.emit("(assert (= (pow2 0) 1))")
		st.emit("(assert (forall ((n Int)) (! (=> (> n 0) (= (pow2 n) (* 2 (pow2 (- n 1))))) :pattern ((pow2 n)))))")
		st.emit("(assert (forall ((n Int)) (! (=> (>= n 0) (>= (pow2 n) 1)) :pattern ((pow2 n)))))")
		st.emit("(assert (forall ((n Int) (m Int)) (! (=> (and (<= 0 n) (<= n m)) (<= (pow2 n) (pow2 m))) :pattern ((pow2 n) (pow2 m)))))")
		st.emit("(assert (= (pow2 30) 1073741824))")
		st.emit("(assert (= (pow2 62) 4611686018427387904))")
	}
	return app(SortInt, "pow2", y)
}

func (ex *Exec) slice(st *State, fr *Frame, x *ssa.Slice) Val {
	base := ex.get(st, x.X)
	var lo, hi, mx Term
	haveLo, haveHi, haveMax := x.Low != nil, x.High != nil, x.Max != nil
	if haveLo {
		lo = ex.get(st, x.Low).T
	} else {
		lo = IntLit(0)
	}
	if haveHi {
		hi = ex.get(st, x.High).T
	}
	if haveMax {
		mx = ex.get(st, x.Max).T
	}
	lab := "slice." + x.Name()
	switch u := x.X.Type().Underlying().(type) {
	case *types.Slice:
		if base.Kind != VTerm {
			break
		}
		s := base.T
		if !haveHi {
			hi = SlLen(s)
		}
		capT := SlCap(s)
		if !haveMax {
			mx = capT
		}
		ex.check(st, fr, "safety", lab, And(Le(IntLit(0), lo), Le(lo, hi), Le(hi, mx), Le(mx, capT)), ex.safetyProps(), "slice bounds in range", ex.pos(x.Pos()))
		return TV(MkSlice(SlRg(s), Add(SlOff(s), lo), Sub(hi, lo), Sub(mx, lo)), x.Type())
	case *types.Basic: // string
		if base.Kind != VTerm {
			break
		}
		s := base.T
		if !haveHi {
			hi = BLen(s)
		}
		ex.check(st, fr, "safety", lab, And(Le(IntLit(0), lo), Le(lo, hi), Le(hi, BLen(s))), ex.safetyProps(), "string slice bounds in range", ex.pos(x.Pos()))
		if lo.K != nil && lo.K.Sign() == 0 && hi.S == BLen(s).S {
			return TV(s, x.Type())
		}
		return TV(BSub(s, lo, hi), x.Type())
	case *types.Pointer:
		arr, ok := u.Elem().Underlying().(*types.Array)
		if !ok || base.Kind != VTerm {
			break
		}
		n := IntLit(arr.Len())
		if !haveHi {
			hi = n
		}
		if !haveMax {
			mx = n
		}
		ex.check(st, fr, "safety", lab, And(Le(IntLit(0), lo), Le(lo, hi), Le(hi, mx), Le(mx, n)), ex.safetyProps(), "slice bounds in range", ex.pos(x.Pos()))
		return TV(MkSlice(base.T, lo, Sub(hi, lo), Sub(mx, lo)), x.Type())
	}
	st.note("slice of unsupported base")
	return ex.havocVal(st, "slice", x.Type())
}

func (ex *Exec) boxFn(st *State, sort string) string {
	fn := "box." + mangle(sort)
	if !st.decl[fn] {
		st.decl[fn] = true
		st.emit(fmt.Sprintf("(declare-fun %s (%s) Int)", fn, sort))
		st.emit(fmt.Sprintf("(declare-fun un%s (Int) %s)", fn, sort))
		st.emit(fmt.Sprintf("(assert (forall ((x %s)) (! (= (un%s (%s x)) x) :pattern ((%s x)))))", sort, fn, fn, fn))
	}
	return fn
}

func (ex *Exec) makeInterface(st *State, v Val, from types.Type, to types.Type) Val {
	tid := IntLit(int64(typeID(from)))
	if v.Kind != VTerm {
		return TV(MkIface(tid, st.fresh("boxed", SortInt)), to)
	}
	if v.T.Sort == SortInt {
		if _, isPtr := from.Underlying().(*types.Pointer); isPtr {
			iv := MkIface(tid, v.T)
			ex.unwrapAxiom(st, iv, v.T, from)
			return TV(iv, to)
		}
	}
	fn := ex.boxFn(st, v.T.Sort)
	return TV(MkIface(tid, app(SortInt, fn, v.T)), to)
}

func (ex *Exec) unbox(st *State, iv Term, to types.Type) Val {
	s := sortOf(to)
	if _, isPtr := to.Underlying().(*types.Pointer); isPtr {
		return TV(IfVal(iv), to)
	}
	fn := ex.boxFn(st, s)
	t := app(s, "un"+fn, IfVal(iv))
	ex.assumeTypeInv(st, t, to)
	return TV(t, to)
}

func (ex *Exec) implFn(st *State, iface types.Type) string {
	fn := "impl." + mangle(typeKeyShort(iface))
	if !st.decl[fn] {
		st.decl[fn] = true
		st.emit(fmt.Sprintf("(declare-fun %s (Int) Bool)", fn))
		st.emit(fmt.Sprintf("(assert (not (%s 0)))", fn))
	}
	return fn
}

func (ex *Exec) typeAssert(st *State, fr *Frame, x *ssa.TypeAssert) Val {
	v := ex.get(st, x.X)
	if v.Kind != VTerm || v.T.Sort != SortIface {
		return ex.havocVal(st, "typeassert", x.Type())
	}
	var ok Term
	var res Val
	if _, isIface := x.AssertedType.Underlying().(*types.Interface); isIface {
		fn := ex.implFn(st, x.AssertedType)
		ok = app(SortBool, fn, IfTy(v.T))
		// static knowledge: if the static type of X already implements the asserted interface
		if types.AssignableTo(x.X.Type(), x.AssertedType) {
			ok = Not(Eq(v.T, NilIface))
		}
		res = TV(v.T, x.AssertedType)
	} else {
		ok = Eq(IfTy(v.T), IntLit(int64(typeID(x.AssertedType))))
		res = ex.unbox(st, v.T, x.AssertedType)
	}
	if x.CommaOk {
		// on failure the value is the zero value
		zero := ZeroOf(res.T.Sort)
		val := TV(Ite(ok, res.T, zero), x.AssertedType)
		return Val{Kind: VTuple, Tuple: []Val{val, TV(ok, types.Typ[types.Bool])}, Ty: x.Type()}
	}
	ex.check(st, fr, "safety", "typeassert."+x.Name(), ok, ex.safetyProps(), "type assertion holds", ex.pos(x.Pos()))
	st.assume(ok)
	return res
}

func (ex *Exec) convert(st *State, fr *Frame, v Val, from, to types.Type) Val {
	if v.Kind != VTerm {
		v.Ty = to
		return v
	}
	switch {
	case isInteger(from) && isInteger(to):
		lo, hi := intRange(to)
		flo, fhi := intRange(from)
		if flo.Cmp(lo) >= 0 && fhi.Cmp(hi) <= 0 {
			return TV(v.T, to)
		}
		if v.T.K != nil && v.T.K.Cmp(lo) >= 0 && v.T.K.Cmp(hi) <= 0 {
			return TV(v.T, to)
		}
		w := pow2(intBits(to))
		if isUnsigned(to) {
			return TV(ModE(v.T, w), to)
		}
		half := pow2(intBits(to) - 1)
		return TV(Sub(ModE(Add(v.T, BigLit(half)), w), BigLit(half)), to)
	case isString(from) && isByteSlice(to):
		// []byte(s): fresh region holding s
		rg := st.freshAlloc("bytes")
		m := st.heap(memName(SortInt), memSort(SortInt))
		arr := st.fresh("strbytes", ArraySort(SortInt))
		n := BLen(v.T)
		st.emit(fmt.Sprintf("(assert (forall ((j Int)) (! (=> (and (<= 0 j) (< j %s)) (= (select %s j) (b.at %s j))) :pattern ((select %s j)))))", n.S, arr.S, v.T.S, arr.S))
		st.assume(Eq(BOf(arr, IntLit(0), n), v.T))
		st.setHeap(memName(SortInt), Store(m, rg, arr))
		return TV(MkSlice(rg, IntLit(0), n, n), to)
	case isByteSlice(from) && isString(to):
		return TV(ex.bytesOfSlice(st, nil, v.T), to)
	case isString(from) && isString(to):
		return TV(v.T, to)
	case isInteger(from) && isString(to):
		// string(rune): opaque 1..4 bytes
		r := st.fresh("runestr", SortBytes)
		st.assume(And(Le(IntLit(1), BLen(r)), Le(BLen(r), IntLit(4))))
		return TV(r, to)
	}
	if sortOf(from) == sortOf(to) {
		return TV(v.T, to)
	}
	st.note(fmt.Sprintf("unmodelled conversion %s -> %s", from, to))
	return ex.havocVal(st, "conv", to)
}

func isByteSlice(t types.Type) bool {
	s, ok := t.Underlying().(*types.Slice)
	if !ok {
		return false
	}
	b, ok := s.Elem().Underlying().(*types.Basic)
	return ok && (b.Kind() == types.Uint8)
}

// next models range-over-string with the rune abstraction: at byte position p
// an ASCII byte is one rune of width 1; any other byte starts a rune >= 0x80 of
// width 1..4 (width 1 covers invalid encodings, which decode to U+FFFD).
func (ex *Exec) next(st *State, fr *Frame, x *ssa.Next) Val {
	r, ok := x.Iter.(*ssa.Range)
	if !ok || !x.IsString {
		st.note("range over map: havoc")
		return ex.havocVal(st, "next", x.Type())
	}
	s := ex.get(st, r.X).T
	pos := st.iters[r]
	okT := Lt(pos, BLen(s))
	rune_ := st.fresh("rune", SortInt)
	w := st.fresh("runew", SortInt)
	b := BAt(s, pos)
	st.assume(Implies(okT, And(Le(IntLit(0), b), Le(b, IntLit(255)))))
	st.assume(Implies(And(okT, Lt(b, IntLit(128))), And(Eq(rune_, b), Eq(w, IntLit(1)))))
	st.assume(Implies(And(okT, Ge(b, IntLit(128))), And(Ge(rune_, IntLit(128)), Le(rune_, IntLit(0x10FFFF)), Le(IntLit(1), w), Le(w, IntLit(4)))))
	st.assume(Implies(okT, Le(Add(pos, w), BLen(s))))
	st.iters[r] = Ite(okT, Add(pos, w), pos)
	// tuple (ok, key, value)
	tup := x.Type().(*types.Tuple)
	return Val{Kind: VTuple, Ty: x.Type(), Tuple: []Val{
		TV(okT, tup.At(0).Type()), TV(pos, tup.At(1).Type()), TV(rune_, tup.At(2).Type()),
	}}
}

// flatStruct: every field is a scalar, string, slice, pointer or interface.
func flatStruct(s *types.Struct) bool {
	for i := 0; i < s.NumFields(); i++ {
		switch s.Field(i).Type().Underlying().(type) {
		case *types.Array, *types.Struct:
			return false
		}
	}
	return true
}

// unwrapAxiom: a pointer to a struct type of this module whose method
// `Unwrap() error` is exactly `return recv.f` (checked on the syntax), and
// whose field f is only ever initialised in composite literals (checked on
// the SSA of the defining package), is an error whose Is-chain is itself
// followed by the chain of f. Emitted where the pointer becomes an interface.
func (ex *Exec) unwrapAxiom(st *State, iv, p Term, from types.Type) {
	pt, ok := from.Underlying().(*types.Pointer)
	if !ok {
		return
	}
	named, ok := pt.Elem().(*types.Named)
	if !ok || named.Obj().Pkg() == nil || !strings.HasPrefix(named.Obj().Pkg().Path(), "filippo.io/age") {
		return
	}
	fld := ex.unwrapField(named)
	if fld == nil {
		return
	}
	h := st.heap(fieldHeapName(pt.Elem(), fld), ArraySort(sortOf(fld.Type())))
	st.emit(fmt.Sprintf("(assert (=> (> %s 0) (forall ((t Iface)) (! (= (wraps %s t) (or (= t %s) (wraps (select %s %s) t))) :pattern ((wraps %s t))))))",
		p.S, iv.S, iv.S, h.S, p.S, iv.S))
}

var unwrapFieldCache = map[*types.Named]*types.Var{}
var unwrapFieldDone = map[*types.Named]bool{}

func (ex *Exec) unwrapField(named *types.Named) *types.Var {
	if unwrapFieldDone[named] {
		return unwrapFieldCache[named]
	}
	unwrapFieldDone[named] = true
	sel := ex.prog.MethodSets.MethodSet(types.NewPointer(named)).Lookup(named.Obj().Pkg(), "Unwrap")
	if sel == nil {
		return nil
	}
	fn := ex.prog.MethodValue(sel)
	if fn == nil || fn.Syntax() == nil {
		return nil
	}
	fd, ok := fn.Syntax().(*ast.FuncDecl)
	if !ok || fd.Body == nil || len(fd.Body.List) != 1 || fd.Recv == nil || len(fd.Recv.List) != 1 || len(fd.Recv.List[0].Names) != 1 {
		return nil
	}
	if fn.Signature.Params().Len() != 0 || fn.Signature.Results().Len() != 1 || !types.Identical(fn.Signature.Results().At(0).Type(), types.Universe.Lookup("error").Type()) {
		return nil
	}
	ret, ok := fd.Body.List[0].(*ast.ReturnStmt)
	if !ok || len(ret.Results) != 1 {
		return nil
	}
	se, ok := ret.Results[0].(*ast.SelectorExpr)
	if !ok {
		return nil
	}
	id, ok := se.X.(*ast.Ident)
	if !ok || id.Name != fd.Recv.List[0].Names[0].Name {
		return nil
	}
	stt, ok := named.Underlying().(*types.Struct)
	if !ok {
		return nil
	}
	idx, fld := fieldByName(stt, se.Sel.Name)
	if fld == nil || !types.Identical(fld.Type(), types.Universe.Lookup("error").Type()) {
		return nil
	}
	// the field is written only when a fresh object is initialised
	pkg := ex.prog.Package(named.Obj().Pkg())
	if pkg == nil {
		return nil
	}
	okInit := true
	var scan func(f *ssa.Function)
	scan = func(f *ssa.Function) {
		for _, b := range f.Blocks {
			for _, ins := range b.Instrs {
				stor, ok := ins.(*ssa.Store)
				if !ok {
					continue
				}
				fa, ok := stor.Addr.(*ssa.FieldAddr)
				if !ok || fa.Field != idx {
					continue
				}
				if p, ok := fa.X.Type().Underlying().(*types.Pointer); !ok || !types.Identical(p.Elem(), named) {
					continue
				}
				if _, isAlloc := fa.X.(*ssa.Alloc); !isAlloc {
					okInit = false
				}
			}
		}
		for _, an := range f.AnonFuncs {
			scan(an)
		}
	}
	for _, m := range pkg.Members {
		if f, ok := m.(*ssa.Function); ok {
			scan(f)
		}
		if t, ok := m.(*ssa.Type); ok {
			for _, ty := range []types.Type{t.Type(), types.NewPointer(t.Type())} {
				ms := ex.prog.MethodSets.MethodSet(ty)
				for i := 0; i < ms.Len(); i++ {
					if f := ex.prog.MethodValue(ms.At(i)); f != nil && f.Pkg == pkg {
						scan(f)
					}
				}
			}
		}
	}
	if !okInit {
		return nil
	}
	unwrapFieldCache[named] = fld
	return fld
}

// ptrCellHeap: the heap holding the variables that pointers to non-struct,
// non-array types point to (one cell per pointer value, by sort).
func ptrCellHeap(et types.Type) (string, string, bool) {
	switch et.Underlying().(type) {
	case *types.Struct, *types.Array:
		return "", "", false
	}
	fs := sortOf(et)
	return "P|" + fs, fs, true
}

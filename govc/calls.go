package main

// Calls: callee contracts (assert requires, havoc modifies, assume ensures),
// inlining of small same-package helpers and closures, library models,
// conservative havoc for unknown externals, mod-set inference.

import (
	"strconv"
	"fmt"
	"os"
	"regexp"
	"sort"
	"go/constant"
	"go/token"
	"go/types"
	"strings"

	"golang.org/x/tools/go/ssa"
)

const repoPrefix = "filippo.io/age"

func inRepo(fn *ssa.Function) bool {
	if fn == nil {
		return false
	}
	p := fn.Pkg
	if p == nil && fn.Parent() != nil {
		p = fn.Parent().Pkg
	}
	if p == nil {
		// bound method wrappers etc.
		if fn.Object() != nil && fn.Object().Pkg() != nil {
			return strings.HasPrefix(fn.Object().Pkg().Path(), repoPrefix)
		}
		return false
	}
	return strings.HasPrefix(p.Pkg.Path(), repoPrefix)
}

func insName(ins ssa.Instruction) string {
	if v, ok := ins.(ssa.Value); ok {
		return v.Name()
	}
	return "defer"
}

// calleeKey returns the contract key of a call and the static callee, if any.
func (ex *Exec) calleeKey(st *State, c *ssa.CallCommon) (key string, fn *ssa.Function) {
	if c.IsInvoke() {
		m := c.Method
		recv := m.Type().(*types.Signature).Recv()
		if recv != nil {
			return "(" + types.TypeString(recv.Type(), nil) + ")." + m.Name(), nil
		}
		return "(" + types.TypeString(c.Value.Type(), nil) + ")." + m.Name(), nil
	}
	switch v := c.Value.(type) {
	case *ssa.Function:
		return v.String(), v
	case *ssa.Builtin:
		return "builtin." + v.Name(), nil
	case *ssa.MakeClosure:
		f := v.Fn.(*ssa.Function)
		return f.String(), f
	}
	return "", nil
}

func (ex *Exec) doCall(st *State, fr *Frame, ins ssa.Instruction, c *ssa.CallCommon, k Kont) {
	ex.curCall = ins
	ex.countSite(st, fr, ins, c)
	if hn := ex.errSite(st, fr, ins, c); hn != "" {
		k0 := k
		k = func(st *State, rets []Val) {
			if n := len(rets); n > 0 && rets[n-1].Kind == VTerm && rets[n-1].T.Sort == SortIface {
				st.setHeap(hn, rets[n-1].T)
			}
			k0(st, rets)
		}
	}
	if base := ex.retSite(st, fr, ins, c); base != "" {
		k1 := k
		k = func(st *State, rets []Val) {
			for i, r := range rets {
				if r.Kind == VTerm {
					st.setHeap(fmt.Sprintf("%s.%d", base, i), r.T)
					// lastbytes: the content of a []byte result at the return
					if sl, ok := r.Ty.Underlying().(*types.Slice); ok && r.T.Sort == SortSlice && sortOf(sl.Elem()) == SortInt {
						arr := Select(st.heap(memName(SortInt), memSort(SortInt)), SlRg(r.T))
						st.setHeap(fmt.Sprintf("%s.%d.bytes", base, i), BOf(arr, SlOff(r.T), SlLen(r.T)))
					}
				}
			}
			k1(st, rets)
		}
	}
	var args []Val
	if c.IsInvoke() {
		args = append(args, ex.get(st, c.Value))
	}
	for _, a := range c.Args {
		args = append(args, ex.get(st, a))
	}
	if b, ok := c.Value.(*ssa.Builtin); ok {
		k(st, ex.builtin(st, fr, b.Name(), c, args, ins))
		return
	}
	var fv Val
	if !c.IsInvoke() {
		fv = ex.get(st, c.Value)
	}
	ex.callValue(st, fr, ins, c, fv, args, k)
}

// callValue dispatches a call whose callee value has been evaluated.
func (ex *Exec) callValue(st *State, fr *Frame, ins ssa.Instruction, c *ssa.CallCommon, fv Val, args []Val, k Kont) {
	sig := c.Signature()
	pos := c.Pos()
	if c.IsInvoke() {
		key, _ := ex.calleeKey(st, c)
		// nil interface receiver panics
		if len(args) > 0 && args[0].Kind == VTerm && args[0].T.Sort == SortIface && !(ex.topC != nil && ex.topC.NoSafety) {
			ex.check(st, fr, "safety", fmt.Sprintf("nilinvoke.%s.%s", c.Method.Name(), insName(ins)), Not(Eq(args[0].T, NilIface)), ex.safetyProps(), "method call on nil interface", ex.pos(pos))
		}
		if ct := ex.db.Contracts[key]; ct != nil {
			k(st, ex.applyContract(st, fr, ct, key, args, sig, pos))
			return
		}
		// try the concrete named interface the method was selected from
		alt := "(" + types.TypeString(c.Value.Type(), nil) + ")." + c.Method.Name()
		if ct := ex.db.Contracts[alt]; ct != nil {
			k(st, ex.applyContract(st, fr, ct, alt, args, sig, pos))
			return
		}
		k(st, ex.unknownCall(st, fr, key, args, sig))
		return
	}
	if fv.Kind == VGlobalPtr {
		fv = ex.loadGlobal(st, fv.Global)
	}
	switch fv.Kind {
	case VClosure:
		fn := fv.Fn
		if fn == nil {
			k(st, ex.unknownCall(st, fr, "builtin?", args, sig))
			return
		}
		// bound method value: i.unwrap  ==>  (*T).unwrap$bound with binding i
		if strings.HasSuffix(fn.Name(), "$bound") && len(fv.Binds) == 1 {
			if m := ex.boundTarget(fn); m != nil {
				ex.callStatic(st, fr, m, append([]Val{fv.Binds[0]}, args...), nil, sig, pos, k)
				return
			}
		}
		ex.callStatic(st, fr, fn, args, fv.Binds, sig, pos, k)
		return
	case VTerm:
		// function value held in a variable/field/parameter
		if name := ex.pureParamName(fr, c.Value); name != "" {
			k(st, ex.pureApply(st, fv.T, args, sig))
			return
		}
		// call through a package-level function variable
		if u, ok := c.Value.(*ssa.UnOp); ok {
			if g, ok := u.X.(*ssa.Global); ok {
				key := g.Pkg.Pkg.Path() + "." + g.Name()
				if ct := ex.db.Contracts[key]; ct != nil {
					k(st, ex.applyContract(st, fr, ct, key, args, sig, pos))
					return
				}
			}
			if fa, ok := u.X.(*ssa.FieldAddr); ok {
				// call through a struct field of function type: contract keyed by field
				if s, sty, ok := structOf(fa.X.Type()); ok {
					key := "field:" + canonStructName(sty) + "." + s.Field(fa.Field).Name()
					if ct := ex.db.Contracts[key]; ct != nil {
						recv := ex.get(st, fa.X)
						k(st, ex.applyContract(st, fr, ct, key, append([]Val{recv}, args...), sig, pos))
						return
					}
				}
			}
		}
	}
	k(st, ex.unknownCall(st, fr, "dynamic", args, sig))
}

func (ex *Exec) boundTarget(w *ssa.Function) *ssa.Function {
	// the wrapper's body is a single call to the method
	for _, b := range w.Blocks {
		for _, ins := range b.Instrs {
			if c, ok := ins.(*ssa.Call); ok {
				if f, ok := c.Call.Value.(*ssa.Function); ok {
					return f
				}
			}
		}
	}
	return nil
}

func (ex *Exec) pureParamName(fr *Frame, v ssa.Value) string {
	if fr.contract == nil || len(fr.contract.Pure) == 0 {
		return ""
	}
	// v is a load of the parameter's alloc
	if u, ok := v.(*ssa.UnOp); ok && u.Op == token.MUL {
		if a, ok := u.X.(*ssa.Alloc); ok && fr.contract.Pure[a.Comment] {
			return a.Comment
		}
	}
	if p, ok := v.(*ssa.Parameter); ok && fr.contract.Pure[p.Name()] {
		return p.Name()
	}
	return ""
}

// pureApply models a call through a pure function value as uninterpreted
// functions of (function identity, arguments); nothing is modified.
func (ex *Exec) pureApply(st *State, f Term, args []Val, sig *types.Signature) []Val {
	var out []Val
	for i := 0; i < sig.Results().Len(); i++ {
		rt := sig.Results().At(i).Type()
		out = append(out, TV(ex.applyTerm(st, f, i, args, sortOf(rt)), rt))
		ex.assumeTypeInv(st, out[i].T, rt)
	}
	return out
}

func (ex *Exec) applyTerm(st *State, f Term, k int, args []Val, rsort string) Term {
	sorts := []string{"Int"}
	ts := []Term{f}
	for _, a := range args {
		if a.Kind != VTerm {
			if t, ok := ex.closureTerm(st, a); ok {
				ts = append(ts, t)
				sorts = append(sorts, SortInt)
				continue
			}
			ts = append(ts, IntLit(0))
			sorts = append(sorts, SortInt)
			continue
		}
		ts = append(ts, a.T)
		sorts = append(sorts, a.T.Sort)
	}
	fn := fmt.Sprintf("apply%d.%s.%s", k, mangle(strings.Join(sorts[1:], ".")), mangle(rsort))
	if !st.decl[fn] {
		st.decl[fn] = true
		st.emit(fmt.Sprintf("(declare-fun %s (%s) %s)", fn, strings.Join(sorts, " "), rsort))
	}
	return app(rsort, fn, ts...)
}

func (ex *Exec) callStatic(st *State, fr *Frame, fn *ssa.Function, args []Val, binds []Val, sig *types.Signature, pos token.Pos, k Kont) {
	key := fn.String()
	short := fn.Name()
	if h, ok := libModels[key]; ok {
		short := contractShort(key)
		st.callN[short]++
		ex.callsiteObligations(st, fr, key, short, st.callN[short], args, pos)
		k(st, h(ex, st, fr, args, sig, pos))
		return
	}
	inlineReq := fr.contract != nil && (fr.contract.Inline[short] || fr.contract.Inline[shortFn(fn)])
	if os.Getenv("GOVC_TRACE_CALLS") != "" {
		fmt.Fprintf(os.Stderr, "call %s from %s contract=%v inline=%v depth=%d\n", key, fr.fn, ex.db.Contracts[key] != nil, inlineReq, fr.depth)
	}
	if ct := ex.db.Contracts[key]; ct != nil && !inlineReq {
		ex.pendingBinds, ex.pendingFn = binds, fn
		rets := ex.applyContract(st, fr, ct, key, args, sig, pos)
		if st.dead {
			return
		}
		k(st, rets)
		return
	}
	if inRepo(fn) && len(fn.Blocks) > 0 && fr.depth < 4 && !ex.onStack(fr, fn) {
		// anonymous closures and un-contracted helpers are inlined
		ct := ex.db.Contracts[key]
		st.path = append(st.path, "inl:"+short)
		ex.runFuncInline(st, fr, fn, ct, args, binds, k)
		return
	}
	k(st, ex.unknownCall(st, fr, key, args, sig))
}

var frameStack []*ssa.Function

func (ex *Exec) onStack(fr *Frame, fn *ssa.Function) bool {
	if fn == ex.top {
		return true
	}
	for _, f := range frameStack {
		if f == fn {
			return true
		}
	}
	return false
}

func (ex *Exec) runFuncInline(st *State, fr *Frame, fn *ssa.Function, ct *Contract, args []Val, binds []Val, k Kont) {
	frameStack = append(frameStack, fn)
	depth := len(frameStack)
	ex.runFunc(st, fn, ct, args, binds, fr.depth+1, func(st2 *State, rets []Val) {
		saved := frameStack
		frameStack = frameStack[:depth-1]
		k(st2, rets)
		frameStack = saved
	})
	frameStack = frameStack[:depth-1]
}

// ---------------------------------------------------------------- contracts at call sites

func (ex *Exec) bindParams(ct *Contract, fnParams []string, args []Val) map[string]Val {
	env := map[string]Val{}
	names := ct.Params
	if len(names) == 0 {
		names = fnParams
	}
	for i, n := range names {
		if i < len(args) {
			env[n] = args[i]
		}
	}
	return env
}

func (ex *Exec) applyContract(st *State, fr *Frame, ct *Contract, key string, args []Val, sig *types.Signature, pos token.Pos) []Val {
	short := contractShort(key)
	if !ct.Trusted {
		ex.usedContracts[key] = true
	} else {
		ex.usedContracts["assumed contract: "+key] = true
	}
	st.callN[short]++
	ord := st.callN[short]
	var fnParams []string
	if f := ex.findFunc(key); f != nil {
		for _, p := range f.Params {
			fnParams = append(fnParams, p.Name())
		}
	}
	vars := ex.bindParams(ct, fnParams, args)
	var capCells []*Cell // captured cells the closure assigns
	var capNames []string
	if ex.pendingFn != nil && ex.pendingFn.String() == key {
		// closure with a contract: captured variables by name
		stored := storedFreeVars(ex.pendingFn)
		for i, fv := range ex.pendingFn.FreeVars {
			if i < len(ex.pendingBinds) {
				b := ex.pendingBinds[i]
				if b.Kind == VCellPtr {
					vars[fv.Name()] = st.cells[b.Cell]
					if stored[fv] {
						capCells = append(capCells, b.Cell)
						capNames = append(capNames, fv.Name())
					}
				} else {
					vars[fv.Name()] = b
				}
			}
		}
	}
	ex.pendingBinds, ex.pendingFn = nil, nil
	ex.linkPureArgs(st, fr, ct, key, args)
	old := st.snapshot()
	env := &Env{ex: ex, st: st, old: old, vars: vars, fr: fr, pkg: ex.pkgOfKey(key), calleeCtx: true, siteFn: key}
	for _, r := range ct.Requires {
		t, err := ex.evalSpecBool(r.Expr, env)
		if err != nil {
			ex.errors = append(ex.errors, fmt.Sprintf("%s: requires %s of %s: %v", funcKey(ex.top), r.Label, key, err))
			continue
		}
		props := r.Props
		if len(props) == 1 && props[0] == "C14" && ex.topC != nil && ex.topC.NoSafety {
			// a pure run-time-safety precondition in a function whose safety is
			// declared out of scope: assumed (see the nosafety assumption)
			st.assume(t)
			continue
		}
		ex.check(st, fr, "pre", fmt.Sprintf("%s.%d.%s", short, ord, r.Label), t, props, "precondition of "+short+": "+r.Text, ex.pos(pos))
	}
	// call-site obligations of the function under verification
	ex.callsiteObligations(st, fr, key, short, ord, args, pos)
	if ct.NoReturn {
		// process exit: the path ends here; ensures clauses describe the exit
		for _, e := range ct.Ensures {
			if t, err := ex.evalSpecBool(e.Expr, env); err == nil {
				st.assume(t)
			}
		}
		ex.exitChecks(st, fr, short)
		ex.endPath(st, "exit:"+short)
		st.dead = true
		return nil
	}
	coverLabel := ""
	if ex.callCovers && fr.depth == 0 {
		coverLabel = fmt.Sprintf("%s.%d", short, ord)
		ex.cover(st, "callpre:"+coverLabel)
	}
	// havoc the frame
	ex.curFr = fr
	if ct.HasMod {
		for _, m := range ct.Modifies {
			if err := ex.havocLvalue(st, m, env); err != nil {
				ex.errors = append(ex.errors, fmt.Sprintf("%s: modifies %q of %s: %v", funcKey(ex.top), m, key, err))
			}
		}
	} else if !ct.Trusted {
		if f := ex.findFunc(key); f != nil {
			ms := ex.modSetOf(f, 0)
			if os.Getenv("GOVC_DEBUG_MODS") != "" {
				fmt.Fprintf(os.Stderr, "modset %s: all=%v ext=%v written=%v heaps=%v\n", key, ms.all, ms.ext, sortedKeys(ms.written), len(ms.heaps))
			}
			ex.applyModSet(st, ms)
		} else {
			ex.havocAll(st, true)
		}
	}
	// the callee's own call-site ghosts (execution counters, last errors) are
	// written by the callee: havoc them; counters only grow
	for _, t := range sortedKeys(ex.tracked(ct)) {
		i := strings.LastIndex(t, "#")
		kk, _ := strconv.Atoi(t[i+1:])
		hn := siteHeap(key, t[:i], kk)
		before := st.heap(hn, SortInt)
		nv := st.fresh("sitecount", SortInt)
		st.assume(Ge(nv, before))
		st.setHeap(hn, nv)
	}
	for _, t := range sortedKeys(ex.errSitesOf(ct)) {
		i := strings.LastIndex(t, "#")
		kk, _ := strconv.Atoi(t[i+1:])
		st.setHeap(siteErrHeap(key, t[:i], kk), st.fresh("siteerr", SortIface))
	}
	// results
	allocBefore := st.allocCtr
	st.bumpAlloc()
	var rets []Val
	post := &Env{ex: ex, st: st, old: old, vars: map[string]Val{}, fr: fr, pkg: env.pkg, calleeCtx: true, siteFn: key}
	for n, v := range vars {
		post.vars[n] = v
	}
	if len(capCells) > 0 {
		// the closure may assign these captured variables: their post values
		// are constrained only by its ensures; old(name) is the value before
		post.oldVars = map[string]Val{}
		for i, c := range capCells {
			post.oldVars[capNames[i]] = vars[capNames[i]]
			nv := ex.havocVal(st, "cap_"+capNames[i], c.Ty)
			st.cells[c] = nv
			post.vars[capNames[i]] = nv
		}
	}
	for i := 0; i < sig.Results().Len(); i++ {
		rt := sig.Results().At(i).Type()
		var v Val
		if ct.IsPure {
			fid := IntLit(int64(typeIDByName("fn:" + key)))
			v = TV(ex.applyTerm(st, fid, i, args, sortOf(rt)), rt)
			ex.assumeTypeInv(st, v.T, rt)
		} else {
			hint := "r_" + short
			if i < len(ct.Results) {
				hint = ct.Results[i] + "_" + short
			}
			v = ex.havocVal(st, hint, rt)
		}
		if v.Kind == VTerm {
			ex.knownVal(st, v.T, rt)
		}
		rets = append(rets, v)
		if i < len(ct.Results) {
			post.vars[ct.Results[i]] = v
		} else if sig.Results().At(i).Name() != "" {
			post.vars[sig.Results().At(i).Name()] = v
		}
		post.vars[fmt.Sprintf("result%d", i)] = v
		if i == 0 {
			post.vars["result"] = v
		}
	}
	for _, e := range ct.Ensures {
		if strings.Contains(e.Text, "lastret(") {
			continue // about the callee's own call sites: internal to its proof
		}
		// callee postconditions are assumed whatever property they are tagged
		// with: they are discharged in the callee's own verification
		t, err := ex.evalSpecBool(e.Expr, post)
		if err != nil {
			if ex.mentionsCalleeLocal(key, err) {
				continue // clause about the callee's own locals: internal to its proof
			}
			ex.errors = append(ex.errors, fmt.Sprintf("%s: ensures %s of %s: %v", funcKey(ex.top), e.Label, key, err))
			continue
		}
		st.assume(t)
	}
	defer func() {
		if coverLabel != "" {
			ex.cover(st, "callpost:"+coverLabel)
		}
	}()
	// freshly allocated results: distinct from everything allocated so far
	for _, fc := range ct.Fresh {
		v, err := ex.evalSpec(fc.Expr, post)
		if err != nil {
			ex.errors = append(ex.errors, fmt.Sprintf("%s: fresh clause of %s: %v", funcKey(ex.top), key, err))
			continue
		}
		cond := TrueT
		if fc.When != nil {
			c, err := ex.evalSpecBool(fc.When, post)
			if err != nil {
				ex.errors = append(ex.errors, fmt.Sprintf("%s: fresh clause of %s: %v", funcKey(ex.top), key, err))
				continue
			}
			cond = c
		}
		id, err := ex.idOfErr(v)
		if err != nil {
			ex.errors = append(ex.errors, fmt.Sprintf("%s: fresh clause of %s: %v", funcKey(ex.top), key, err))
			continue
		}
		facts := []Term{Gt(id, IntLit(0)), Ge(id, allocBefore), Not(mkTerm("(isold "+id.S+")", SortBool)), Eq(mkTerm("(rg.kind "+id.S+")", SortInt), IntLit(0))}
		st.assume(Implies(cond, And(facts...)))
	}
	return rets
}

func (ex *Exec) idOfErr(v Val) (t Term, err error) {
	defer func() {
		if r := recover(); r != nil {
			err = fmt.Errorf("%v", r)
		}
	}()
	return ex.idOf(v), nil
}

func contractShort(key string) string {
	s := key
	if i := strings.LastIndex(s, "/"); i >= 0 {
		s = s[i+1:]
	}
	return s
}

func (ex *Exec) entryFor(fr *Frame) *Snapshot { return ex.entry }

func (ex *Exec) findFunc(key string) *ssa.Function {
	return funcIndex[key]
}

var funcIndex = map[string]*ssa.Function{}

func (ex *Exec) pkgOfKey(key string) *types.Package {
	if f := funcIndex[key]; f != nil && f.Pkg != nil {
		return f.Pkg.Pkg
	}
	if ex.top != nil && ex.top.Pkg != nil {
		return ex.top.Pkg.Pkg
	}
	return nil
}

func (ex *Exec) pkgOfFrame(fr *Frame) *types.Package {
	f := fr.fn
	for f != nil && f.Pkg == nil {
		f = f.Parent()
	}
	if f != nil && f.Pkg != nil {
		return f.Pkg.Pkg
	}
	return nil
}

func (ex *Exec) callsiteObligations(st *State, fr *Frame, key, short string, ord int, args []Val, pos token.Pos) {
	if fr.contract == nil {
		return
	}
	// ordinals in `call f#k` are STATIC: the k-th call site of f in the
	// function's source order (a site inside a loop keeps its number)
	if so := ex.staticOrdinal(fr.fn, ex.curCall, key); so > 0 {
		ord = so
	}
	for _, cr := range fr.contract.CallReqs {
		if (cr.Callee == short || cr.Callee == key || strings.HasSuffix(key, "."+cr.Callee) || strings.HasSuffix(key, ")."+cr.Callee)) && (cr.CallN == 0 || cr.CallN == ord) {
			avars := map[string]Val{}
			for ai, a := range args {
				avars[fmt.Sprintf("arg%d", ai)] = a
			}
			cenv := &Env{ex: ex, st: st, old: ex.entryFor(fr), vars: avars, fr: fr, pkg: ex.pkgOfFrame(fr), callerLocals: true}
			t, err := ex.evalSpecBool(cr.Expr, cenv)
			if err != nil {
				ex.errors = append(ex.errors, fmt.Sprintf("%s: call-site obligation %s: %v", funcKey(ex.top), cr.Label, err))
				continue
			}
			if ex.callReqHit == nil {
				ex.callReqHit = map[*Clause]bool{}
			}
			ex.callReqHit[cr] = true
			ex.check(st, fr, "callsite", cr.Label, t, cr.Props, "call-site obligation at "+short+": "+cr.Text, ex.pos(pos))
		}
	}
}

// unknownCall: an external callee without contract. Results are arbitrary;
// everything reachable is havocked except unexported fields of this module's
// struct types (assumption A-reenter) and ghost globals.
func (ex *Exec) unknownCall(st *State, fr *Frame, key string, args []Val, sig *types.Signature) []Val {
	st.note("unknown callee " + key + ": havoc")
	ex.usedUnknown[key] = true
	for _, a := range args {
		ex.havocReachableCells(st, a)
	}
	ex.havocAll(st, true)
	// a closure of this module handed to unknown code may be run by it (any
	// number of times): everything the closure can write is arbitrary
	// afterwards, protected state included
	for _, a := range args {
		if a.Kind == VClosure && a.Fn != nil && inRepo(a.Fn) && len(a.Fn.Blocks) > 0 {
			ms := ex.modSetOf(a.Fn, 0)
			if ms.all || ms.ext {
				ex.havocAll(st, false)
			} else {
				ex.applyModSet(st, ms)
			}
			st.note("closure " + a.Fn.String() + " passed to unknown callee " + key + ": its effects are havocked")
		}
	}
	st.bumpAlloc()
	rs := ex.havocResults(st, sig)
	for i, r := range rs {
		if r.Kind == VTerm {
			ex.knownVal(st, r.T, sig.Results().At(i).Type())
		}
	}
	return rs
}

func (ex *Exec) havocReachableCells(st *State, a Val) {
	switch a.Kind {
	case VCellPtr:
		st.cells[a.Cell] = ex.havocVal(st, a.Cell.Name, a.Cell.Ty)
	case VClosure:
		for _, b := range a.Binds {
			ex.havocReachableCells(st, b)
		}
	}
}

func protectedHeap(name string) bool {
	if strings.HasPrefix(name, "g|") {
		return true // ghost globals
	}
	if strings.HasPrefix(name, "G|") {
		// ghost fields: only the I/O ghosts of streams can be affected by code
		// we know nothing about (it may read or write a stream it was given)
		switch name {
		case "G|$out", "G|$rem", "G|$bufd":
			return false
		}
		return true
	}
	if strings.HasPrefix(name, "F|"+repoPrefix) {
		parts := strings.Split(name, "|")
		if len(parts) == 3 && parts[2] != "" {
			c := parts[2][0]
			return c >= 'a' && c <= 'z' || c == '_'
		}
	}
	return false
}

// havocAll forgets every heap (external=true keeps protected heaps).
func (ex *Exec) havocAll(st *State, external bool) {
	var names []string
	for name := range st.heaps {
		names = append(names, name)
	}
	sort.Strings(names)
	for _, name := range names {
		if external && protectedHeap(name) {
			continue
		}
		st.havocHeap(name, st.heaps[name].Sort)
	}
	if external {
		st.epochExt++
	} else {
		st.epochAll++
	}
	st.epochDirty = true
}

// ---------------------------------------------------------------- mod sets

type ModSet struct {
	heaps    map[string]string // heap name -> sort
	written  map[string]bool   // heaps written through existing pointers (not merely by fresh allocations)
	all      bool              // unknown in-module effects
	ext      bool              // unknown external callee
	cellsAll bool
}

func newModSet() *ModSet { return &ModSet{heaps: map[string]string{}, written: map[string]bool{}} }

// write records a store through an existing pointer; alloc records the
// initialisation of a freshly allocated object/region (older ones untouched).
func (m *ModSet) write(name, sort string) { m.heaps[name] = sort; m.written[name] = true }
func (m *ModSet) alloc(name, sort string) { m.heaps[name] = sort }

var modCache = map[*ssa.Function]*ModSet{}

func (ex *Exec) modSetOf(fn *ssa.Function, depth int) *ModSet {
	if ms, ok := modCache[fn]; ok {
		return ms
	}
	ms := newModSet()
	modCache[fn] = ms // cycles: fixpoint approximated by first pass + all on recursion
	if depth > 6 {
		ms.all = true
		return ms
	}
	for _, b := range fn.Blocks {
		for _, ins := range b.Instrs {
			ex.instrMods(ins, ms, depth)
		}
	}
	for _, af := range fn.AnonFuncs {
		sub := ex.modSetOf(af, depth+1)
		ms.merge(sub)
	}
	return ms
}

func (m *ModSet) merge(o *ModSet) {
	for k, v := range o.heaps {
		m.heaps[k] = v
	}
	for k := range o.written {
		m.written[k] = true
	}
	m.all = m.all || o.all
	m.ext = m.ext || o.ext
}

func (ex *Exec) instrMods(ins ssa.Instruction, ms *ModSet, depth int) {
	switch x := ins.(type) {
	case *ssa.Store:
		switch a := x.Addr.(type) {
		case *ssa.FieldAddr:
			if s, sty, ok := structOf(a.X.Type()); ok {
				f := s.Field(a.Field)
				if _, fresh := a.X.(*ssa.Alloc); fresh {
					// field of an object allocated in this function (composite literal)
					ms.alloc(fieldHeapName(sty, f), ArraySort(sortOf(f.Type())))
				} else {
					ms.write(fieldHeapName(sty, f), ArraySort(sortOf(f.Type())))
				}
			}
		case *ssa.IndexAddr:
			if isFreshArrayBase(a.X) {
				// element of an array allocated in this very function (slice
				// literals, varargs): initialisation of fresh memory
				if et, ok := derefPtr(a.X.Type()); ok {
					if arr, ok := et.Underlying().(*types.Array); ok {
						es := sortOf(arr.Elem())
						ms.alloc(memName(es), memSort(es))
						return
					}
				}
			}
			var elem types.Type
			switch u := a.X.Type().Underlying().(type) {
			case *types.Slice:
				elem = u.Elem()
			case *types.Pointer:
				if arr, ok := u.Elem().Underlying().(*types.Array); ok {
					elem = arr.Elem()
				}
			}
			if elem != nil {
				es := sortOf(elem)
				ms.write(memName(es), memSort(es))
			}
		case *ssa.Alloc, *ssa.FreeVar:
			if _, isFV := a.(*ssa.FreeVar); isFV {
				ms.cellsAll = true
			}
			// array-typed allocs written as a whole
			if et, ok := derefPtr(x.Addr.Type()); ok {
				if arr, ok := et.Underlying().(*types.Array); ok {
					es := sortOf(arr.Elem())
					ms.write(memName(es), memSort(es))
				}
			}
		case *ssa.Global:
			et := a.Type().Underlying().(*types.Pointer).Elem()
			ms.write("V|"+a.Pkg.Pkg.Path()+"."+a.Name(), sortOf(et))
		default:
			if et, ok := derefPtr(x.Addr.Type()); ok {
				if arr, ok := et.Underlying().(*types.Array); ok {
					es := sortOf(arr.Elem())
					ms.write(memName(es), memSort(es))
					return
				}
			}
			ms.all = true
		}
	case *ssa.Alloc:
		et := x.Type().Underlying().(*types.Pointer).Elem()
		ex.allocMods(et, ms)
	case *ssa.MakeSlice:
		es := sortOf(x.Type().Underlying().(*types.Slice).Elem())
		ms.heaps[memName(es)] = memSort(es)
	case *ssa.Convert:
		if isByteSlice(x.Type()) && isString(x.X.Type()) {
			ms.heaps[memName(SortInt)] = memSort(SortInt)
		}
	case *ssa.Call:
		ex.callMods(&x.Call, ms, depth)
	case *ssa.Defer:
		ex.callMods(&x.Call, ms, depth)
	case *ssa.Go:
		ms.all = true
	case *ssa.MapUpdate:
	}
}

func (ex *Exec) allocMods(et types.Type, ms *ModSet) {
	switch u := et.Underlying().(type) {
	case *types.Struct:
		for i := 0; i < u.NumFields(); i++ {
			f := u.Field(i)
			switch fu := f.Type().Underlying().(type) {
			case *types.Array:
				es := sortOf(fu.Elem())
				ms.heaps[memName(es)] = memSort(es)
			case *types.Struct:
				ex.allocMods(f.Type(), ms)
			default:
				ms.heaps[fieldHeapName(et, f)] = ArraySort(sortOf(f.Type()))
			}
		}
	case *types.Array:
		es := sortOf(u.Elem())
		ms.heaps[memName(es)] = memSort(es)
	}
}

func (ex *Exec) callMods(c *ssa.CallCommon, ms *ModSet, depth int) {
	if b, ok := c.Value.(*ssa.Builtin); ok {
		switch b.Name() {
		case "append", "copy":
			var elem types.Type
			if sl, ok := c.Args[0].Type().Underlying().(*types.Slice); ok {
				elem = sl.Elem()
			}
			if elem != nil {
				es := sortOf(elem)
				if b.Name() == "append" && isLocalAccumulator(c.Args[0]) {
					// slice built up locally from nil: append only ever touches
					// regions allocated by earlier appends of this function
					ms.alloc(memName(es), memSort(es))
				} else {
					ms.write(memName(es), memSort(es))
				}
			}
		}
		return
	}
	key, fn := ex.calleeKey(nil, c)
	if fn == nil && !c.IsInvoke() && ex.topC != nil && len(ex.topC.Pure) > 0 {
		// call through a parameter declared pure: no effects
		if u, ok := c.Value.(*ssa.UnOp); ok && u.Op == token.MUL {
			if a, ok := u.X.(*ssa.Alloc); ok && ex.topC.Pure[a.Comment] {
				return
			}
		}
	}
	if fn == nil && !c.IsInvoke() {
		// call through a local variable that only ever holds one closure
		if f := resolveClosureVar(c.Value); f != nil {
			fn = f
			key = f.String()
		}
	}
	if _, ok := libModels[key]; ok {
		for _, h := range libModelMods[key] {
			ms.write(h[0], h[1])
		}
		return
	}
	if ct := ex.db.Contracts[key]; ct != nil {
		if ct.NoReturn {
			return // the process exits: no effect is observable afterwards
		}
		if ct.HasMod || ct.Trusted {
			ex.modsOfClauses(ct, ms)
			if fn != nil && closureStoresFreeVars(fn) {
				ms.cellsAll = true
			}
			return
		}
	}
	if fn != nil && inRepo(fn) && len(fn.Blocks) > 0 {
		sub := ex.modSetOf(fn, depth+1)
		ms.merge(sub)
		if closureStoresFreeVars(fn) {
			ms.cellsAll = true
		}
		return
	}
	if fn == nil && !c.IsInvoke() {
		// dynamic call: closure variable (may be an in-function closure) or unknown
		ms.ext = true
		ms.cellsAll = true
		return
	}
	ms.ext = true
}

// modsOfClauses maps a contract's modifies clause to heap names (array granularity).
func (ex *Exec) modsOfClauses(ct *Contract, ms *ModSet) {
	for _, m := range ct.Modifies {
		m = strings.TrimSpace(m)
		switch {
		case m == "\\heap" || m == "\\all":
			ms.ext = true
		case strings.HasPrefix(m, "$"):
			if g := ex.db.Ghosts[m]; g != nil {
				ms.write("g|"+m, g.Sort)
			}
		case strings.Contains(m, ".$"):
			name := m[strings.LastIndex(m, ".$")+1:]
			if g := ex.db.Ghosts[name]; g != nil {
				ms.write("G|"+name, ArraySort(g.Sort))
			}
		case strings.HasSuffix(m, "]") || strings.HasPrefix(m, "*"):
			// slice window or array pointee: byte memory unless stated otherwise
			ms.write(memName(SortInt), memSort(SortInt))
		default:
			if !strings.Contains(m, ".") {
				// a package-level variable of the callee's package
				if pkg := ex.pkgOfKey(ct.Key); pkg != nil {
					if sp := ex.prog.Package(pkg); sp != nil {
						if g, ok := sp.Members[m].(*ssa.Global); ok {
							et := g.Type().Underlying().(*types.Pointer).Elem()
							ms.write("V|"+g.Pkg.Pkg.Path()+"."+g.Name(), sortOf(et))
							continue
						}
					}
				}
			}
			// x.f : resolved at the call site by havocLvalue; here be coarse
			ms.fieldsByName(ex, m)
		}
	}
}

func (m *ModSet) fieldsByName(ex *Exec, lv string) {
	i := strings.LastIndex(lv, ".")
	if i < 0 {
		m.all = true
		return
	}
	fname := lv[i+1:]
	found := false
	for name, info := range allFieldHeaps {
		if strings.HasSuffix(name, "|"+fname) {
			m.write(name, info)
			found = true
		}
	}
	if !found {
		m.all = true
	}
}

// allFieldHeaps: heap name -> sort, for every struct field of module types (filled at load).
var allFieldHeaps = map[string]string{}

func (ex *Exec) applyModSet(st *State, ms *ModSet) {
	if ms.all {
		ex.havocAll(st, false)
		return
	}
	var names []string
	for name := range ms.heaps {
		names = append(names, name)
	}
	sort.Strings(names)
	for _, name := range names {
		sort := ms.heaps[name]
		old := st.heap(name, sort)
		nw := st.havocHeap(name, sort)
		if !ms.written[name] && strings.HasPrefix(sort, "(Array Int ") {
			// only fresh allocations initialise this heap: everything that
			// existed before keeps its content
			st.emit(fmt.Sprintf("(assert (forall ((r Int)) (! (=> (< r %s) (= (select %s r) (select %s r))) :pattern ((select %s r)))))",
				st.allocCtr.S, nw.S, old.S, nw.S))
		}
	}
	if ms.ext {
		ex.havocAll(st, true)
	}
}

// havocLvalue havocs one entry of a modifies clause, evaluated in env.
func (ex *Exec) havocLvalue(st *State, m string, env *Env) error {
	m = strings.TrimSpace(m)
	if m == "\\heap" || m == "\\all" {
		ex.havocAll(st, true)
		return nil
	}
	e, err := parseSpecExpr(m)
	if err != nil {
		return err
	}
	switch x := e.(type) {
	case *SIdent:
		if strings.HasPrefix(x.Name, "$") {
			g := ex.db.Ghosts[x.Name]
			if g == nil {
				return fmt.Errorf("undeclared ghost %s", x.Name)
			}
			st.havocHeap("g|"+x.Name, g.Sort)
			return nil
		}
		// a mutable package-level variable of the callee's package
		if _, isVar := env.vars[x.Name]; !isVar && env.pkg != nil {
			sp := ex.prog.Package(env.pkg)
			if sp == nil {
				return fmt.Errorf("no ssa package for %s", env.pkg.Path())
			}
			if g, ok := sp.Members[x.Name].(*ssa.Global); ok && !ex.isImmutableGlobal(g) {
				et := g.Type().Underlying().(*types.Pointer).Elem()
				st.havocHeap("V|"+g.Pkg.Pkg.Path()+"."+g.Name(), sortOf(et))
				return nil
			}
		}
		// a pointer-to-array parameter: *p shorthand without star
		v, err := ex.evalSpec(e, env)
		if err != nil {
			return err
		}
		return ex.havocPointee(st, v)
	case *SUn:
		if x.Op == "*" {
			v, err := ex.evalSpec(x.X, env)
			if err != nil {
				return err
			}
			return ex.havocPointee(st, v)
		}
	case *SSel:
		base, err := ex.evalSpec(x.X, env)
		if err != nil {
			return err
		}
		if strings.HasPrefix(x.Sel, "$") {
			g := ex.db.Ghosts[x.Sel]
			if g == nil {
				return fmt.Errorf("undeclared ghost %s", x.Sel)
			}
			hn := "G|" + x.Sel
			if x.Sel == "$hstate" {
				// mutable library object: a write to one that existed at entry
				// is a frame violation of the caller
				ex.writeCheck(st, ex.curFr, hn, ex.idOf(base), TrueT, "callee writes "+m, "")
			}
			h := st.heap(hn, ArraySort(g.Sort))
			nv := st.fresh("hv"+x.Sel, g.Sort)
			st.setHeap(hn, Store(h, ex.idOf(base), nv))
			return nil
		}
		s, sty, ok := structOf(base.Ty)
		if !ok {
			return fmt.Errorf("%s: not a struct pointer", m)
		}
		_, f := fieldByName(s, x.Sel)
		if f == nil {
			return fmt.Errorf("no field %s", x.Sel)
		}
		switch fu := f.Type().Underlying().(type) {
		case *types.Array:
			rg := ex.fieldRegion(st, base.T, sty, f)
			es := sortOf(fu.Elem())
			mm := st.heap(memName(es), memSort(es))
			st.setHeap(memName(es), Store(mm, rg, st.fresh("hvarr", ArraySort(es))))
			return nil
		}
		hn := fieldHeapName(sty, f)
		fs := sortOf(f.Type())
		ex.writeCheck(st, ex.curFr, hn, base.T, TrueT, "callee writes "+m, "")
		h := st.heap(hn, ArraySort(fs))
		nv := st.fresh("hv_"+x.Sel, fs)
		ex.assumeTypeInv(st, nv, f.Type())
		st.setHeap(hn, Store(h, base.T, nv))
		return nil
	case *SSlice:
		v, err := ex.evalSpec(x.X, env)
		if err != nil {
			return err
		}
		if v.Kind != VTerm || v.T.Sort != SortSlice {
			return fmt.Errorf("%s: not a slice", m)
		}
		lo := IntLit(0)
		hi := SlLen(v.T)
		if x.Lo != nil {
			l, err := ex.evalSpec(x.Lo, env)
			if err != nil {
				return err
			}
			lo = l.T
		}
		if x.Hi != nil {
			h, err := ex.evalSpec(x.Hi, env)
			if err != nil {
				return err
			}
			hi = h.T
		}
		es := SortInt
		if sl, ok := v.Ty.Underlying().(*types.Slice); ok {
			es = sortOf(sl.Elem())
		}
		ex.writeCheck(st, ex.curFr, memName(es), SlRg(v.T), Gt(hi, lo), "callee writes "+m, "")
		ex.havocWindow(st, SlRg(v.T), Add(SlOff(v.T), lo), Add(SlOff(v.T), hi), es)
		return nil
	}
	return fmt.Errorf("unsupported modifies entry %q", m)
}

func (ex *Exec) havocPointee(st *State, v Val) error {
	if v.Kind == VTerm && v.T.Sort == SortInt {
		if et, ok := derefPtr(v.Ty); ok {
			if arr, ok := et.Underlying().(*types.Array); ok {
				es := sortOf(arr.Elem())
				ex.writeCheck(st, ex.curFr, memName(es), v.T, TrueT, "callee writes pointee", "")
				mm := st.heap(memName(es), memSort(es))
				na := st.fresh("hvarr", ArraySort(es))
				st.setHeap(memName(es), Store(mm, v.T, na))
				return nil
			}
		}
	}
	if v.Kind == VCellPtr {
		st.cells[v.Cell] = ex.havocVal(st, v.Cell.Name, v.Cell.Ty)
		return nil
	}
	return fmt.Errorf("cannot havoc pointee")
}

// havocWindow replaces region rg's content on [lo,hi) with arbitrary values.
func (ex *Exec) havocWindow(st *State, rg, lo, hi Term, es string) Term {
	mm := st.heap(memName(es), memSort(es))
	old := Select(mm, rg)
	na := st.fresh("win", ArraySort(es))
	st.emit(fmt.Sprintf("(assert (forall ((j Int)) (! (=> (or (< j %s) (>= j %s)) (= (select %s j) (select %s j))) :pattern ((select %s j)))))",
		lo.S, hi.S, na.S, old.S, na.S))
	st.setHeap(memName(es), Store(mm, rg, na))
	return na
}

// ---------------------------------------------------------------- builtins

func (ex *Exec) builtin(st *State, fr *Frame, name string, c *ssa.CallCommon, args []Val, ins ssa.Instruction) []Val {
	rty := c.Signature().Results()
	var rt types.Type
	if v, ok := ins.(ssa.Value); ok {
		rt = v.Type()
	} else if rty.Len() > 0 {
		rt = rty.At(0).Type()
	}
	switch name {
	case "len":
		a := args[0]
		if a.Kind == VTerm {
			switch a.T.Sort {
			case SortSlice:
				return []Val{TV(SlLen(a.T), rt)}
			case SortBytes:
				return []Val{TV(BLen(a.T), rt)}
			}
			if arr, ok := arrayOf(c.Args[0].Type()); ok {
				return []Val{TV(IntLit(arr.Len()), rt)}
			}
		}
	case "cap":
		a := args[0]
		if a.Kind == VTerm && a.T.Sort == SortSlice {
			return []Val{TV(SlCap(a.T), rt)}
		}
		if arr, ok := arrayOf(c.Args[0].Type()); ok {
			return []Val{TV(IntLit(arr.Len()), rt)}
		}
	case "append":
		return []Val{ex.doAppend(st, fr, args[0], args[1], c.Args[0].Type(), c.Args[1].Type())}
	case "copy":
		return []Val{ex.doCopy(st, fr, args[0], args[1], c.Args[1].Type())}
	case "ssa:wrapnilchk":
		return []Val{args[0]}
	case "ssa:deferstack":
		return []Val{TV(IntLit(0), rt)}
	case "min", "max":
		if len(args) == 2 && args[0].Kind == VTerm && args[0].T.Sort == SortInt {
			a, b := args[0].T, args[1].T
			if name == "min" {
				return []Val{TV(Ite(Le(a, b), a, b), rt)}
			}
			return []Val{TV(Ite(Ge(a, b), a, b), rt)}
		}
	case "print", "println":
		return nil
	}
	st.note("unmodelled builtin " + name)
	if rt == nil {
		return nil
	}
	return []Val{ex.havocVal(st, name, rt)}
}

func arrayOf(t types.Type) (*types.Array, bool) {
	if e, ok := derefPtr(t); ok {
		t = e
	}
	a, ok := t.Underlying().(*types.Array)
	return a, ok
}

// doAppend models append(s, t...) exactly: in place when capacity allows,
// otherwise into a fresh region. Both the indexed view and the abstract
// (Bytes) view of the result are stated.
func (ex *Exec) doAppend(st *State, fr *Frame, s, t Val, sty, tty types.Type) Val {
	sl := sty.Underlying().(*types.Slice)
	es := sortOf(sl.Elem())
	if s.Kind != VTerm || t.Kind != VTerm {
		st.note("append with executor-level operands")
		return ex.havocVal(st, "append", sty)
	}
	m := st.heap(memName(es), memSort(es))
	var tlen Term
	fromString := t.T.Sort == SortBytes
	if fromString {
		tlen = BLen(t.T)
	} else {
		tlen = SlLen(t.T)
	}
	if tlen.K != nil && tlen.K.Sign() == 0 {
		// append(s) or append(s, empty...): s itself (nil stays nil)
		return TV(s.T, sty)
	}
	newLen := Add(SlLen(s.T), tlen)
	fits := Le(newLen, SlCap(s.T))
	fresh := st.freshAlloc("app")
	ncap := st.fresh("appcap", SortInt)
	st.assume(And(Ge(ncap, newLen), Le(ncap, BigLit(pow2(56)))))
	oldS := Select(m, SlRg(s.T))
	// two separate result arrays, one per case, so that the case split on
	// `fits` stays at the top of every term (no ite inside index arithmetic)
	mkCase := func(tag string, off Term) Term {
		na := st.fresh("apparr"+tag, ArraySort(es))
		base := Add(off, SlLen(s.T))
		var src string
		if fromString {
			src = fmt.Sprintf("(b.at %s (- k %s))", t.T.S, base.S)
		} else {
			src = fmt.Sprintf("(select %s (+ %s (- k %s)))", Select(m, SlRg(t.T)).S, SlOff(t.T).S, base.S)
		}
		// appended elements
		st.emit(fmt.Sprintf("(assert (forall ((k Int)) (! (=> (and (<= %s k) (< k %s)) (= (select %s k) %s)) :pattern ((select %s k)))))",
			base.S, Add(base, tlen).S, na.S, src, na.S))
		// old elements (index arithmetic kept syntactically simple: triggers
		// match terms, not arithmetic equalities)
		srcIdx := fmt.Sprintf("(+ %s (- k %s))", SlOff(s.T).S, off.S)
		if off.S == SlOff(s.T).S {
			srcIdx = "k"
		} else if off.K != nil && off.K.Sign() == 0 {
			srcIdx = fmt.Sprintf("(+ %s k)", SlOff(s.T).S)
		}
		st.emit(fmt.Sprintf("(assert (forall ((k Int)) (! (=> (and (<= %s k) (< k %s)) (= (select %s k) (select %s %s))) :pattern ((select %s k)))))",
			off.S, base.S, na.S, oldS.S, srcIdx, na.S))
		if es == SortInt {
			var tb Term
			if fromString {
				tb = t.T
			} else {
				tb = ex.bytesOfSlice(st, nil, t.T)
			}
			st.assume(Eq(BOf(na, off, newLen), BCat(ex.bytesOfSlice(st, nil, s.T), tb)))
			st.assume(Eq(BOf(na, off, SlLen(s.T)), ex.bytesOfSlice(st, nil, s.T)))
		}
		return na
	}
	// (appending nothing writes nothing, even when it "fits" a nil slice)
	ex.writeCheck(st, fr, memName(es), SlRg(s.T), And(fits, Gt(tlen, IntLit(0))), "append in place", "")
	naA := mkCase("A", SlOff(s.T))
	// in place: everything outside the appended window is unchanged
	baseA := Add(SlOff(s.T), SlLen(s.T))
	st.emit(fmt.Sprintf("(assert (forall ((j Int)) (! (=> (or (< j %s) (>= j %s)) (= (select %s j) (select %s j))) :pattern ((select %s j)))))",
		baseA.S, Add(baseA, tlen).S, naA.S, oldS.S, naA.S))
	naB := mkCase("B", IntLit(0))
	resA := MkSlice(SlRg(s.T), SlOff(s.T), newLen, SlCap(s.T))
	resB := MkSlice(fresh, IntLit(0), newLen, ncap)
	res := st.fresh("appres", SortSlice)
	st.assume(Eq(res, Ite(fits, resA, resB)))
	st.setHeap(memName(es), Ite(fits, Store(m, SlRg(s.T), naA), Store(m, fresh, naB)))
	return TV(res, sty)
}

func (ex *Exec) doCopy(st *State, fr *Frame, d, s Val, sty types.Type) Val {
	if d.Kind != VTerm || s.Kind != VTerm {
		return ex.havocVal(st, "copy", types.Typ[types.Int])
	}
	es := SortInt
	if sl, ok := d.Ty.Underlying().(*types.Slice); ok {
		es = sortOf(sl.Elem())
	}
	m := st.heap(memName(es), memSort(es))
	var slen Term
	fromString := s.T.Sort == SortBytes
	if fromString {
		slen = BLen(s.T)
	} else {
		slen = SlLen(s.T)
	}
	n := Ite(Le(SlLen(d.T), slen), SlLen(d.T), slen)
	nn := st.fresh("ncopy", SortInt)
	st.assume(Eq(nn, n))
	lo := SlOff(d.T)
	hi := Add(lo, nn)
	var src string
	if fromString {
		src = fmt.Sprintf("(b.at %s (- k %s))", s.T.S, lo.S)
	} else {
		src = fmt.Sprintf("(select %s (+ %s (- k %s)))", Select(m, SlRg(s.T)).S, SlOff(s.T).S, lo.S)
	}
	var srcBytes Term
	if es == SortInt {
		if fromString {
			srcBytes = BSub(s.T, IntLit(0), nn)
		} else {
			srcBytes = BOf(Select(m, SlRg(s.T)), SlOff(s.T), nn)
		}
	}
	ex.writeCheck(st, fr, memName(es), SlRg(d.T), Gt(nn, IntLit(0)), "copy", "")
	na := ex.havocWindow(st, SlRg(d.T), lo, hi, es)
	st.emit(fmt.Sprintf("(assert (forall ((k Int)) (! (=> (and (<= %s k) (< k %s)) (= (select %s k) %s)) :pattern ((select %s k)))))",
		lo.S, hi.S, na.S, src, na.S))
	if es == SortInt {
		st.assume(Eq(BOf(na, lo, nn), srcBytes))
	}
	return TV(nn, types.Typ[types.Int])
}

// ---------------------------------------------------------------- library models written in Go

type libModel func(ex *Exec, st *State, fr *Frame, args []Val, sig *types.Signature, pos token.Pos) []Val

var libModels = map[string]libModel{}
var libModelMods = map[string][][2]string{}

func init() {
	libModels["errors.New"] = func(ex *Exec, st *State, fr *Frame, args []Val, sig *types.Signature, pos token.Pos) []Val {
		return []Val{ex.freshError(st, nil)}
	}
	libModels["fmt.Errorf"] = func(ex *Exec, st *State, fr *Frame, args []Val, sig *types.Signature, pos token.Pos) []Val {
		// %w positions in a constant format select the wrapped arguments
		var wrapped []Term
		if ws, ok := ex.lastErrorfWraps(st, args); ok {
			wrapped = ws
		} else {
			// unknown format: the result may wrap anything
			e := ex.havocVal(st, "errorf", sig.Results().At(0).Type())
			st.assume(Not(Eq(e.T, NilIface)))
			return []Val{e}
		}
		return []Val{ex.freshError(st, wrapped)}
	}
	libModels["errors.Is"] = func(ex *Exec, st *State, fr *Frame, args []Val, sig *types.Signature, pos token.Pos) []Val {
		if args[0].Kind == VTerm && args[1].Kind == VTerm {
			return []Val{TV(app(SortBool, "wraps", args[0].T, args[1].T), types.Typ[types.Bool])}
		}
		return ex.havocResults(st, sig)
	}
}

// freshError returns a new non-nil error distinct from every sentinel and
// every earlier error, whose Is-chain is exactly itself plus the wrapped ones.
func (ex *Exec) freshError(st *State, wrapped []Term) Val {
	id := st.freshAlloc("err")
	e := MkIface(IntLit(int64(typeIDByName("*errors.fresh"))), id)
	disj := []string{fmt.Sprintf("(= t %s)", e.S)}
	for _, w := range wrapped {
		disj = append(disj, fmt.Sprintf("(wraps %s t)", w.S))
	}
	body := disj[0]
	if len(disj) > 1 {
		body = "(or " + strings.Join(disj, " ") + ")"
	}
	st.emit(fmt.Sprintf("(assert (forall ((t Iface)) (! (= (wraps %s t) %s) :pattern ((wraps %s t)))))", e.S, body, e.S))
	return TV(e, types.Universe.Lookup("error").Type())
}

// lastErrorfWraps inspects the (constant) format string of an Errorf call.
func (ex *Exec) lastErrorfWraps(st *State, args []Val) ([]Term, bool) {
	if len(args) < 1 {
		return nil, false
	}
	format, ok := ex.constString(st, args[0])
	if !ok {
		return nil, false
	}
	// count verbs; locate %w
	var wIdx []int
	argi := 0
	for i := 0; i < len(format); i++ {
		if format[i] != '%' {
			continue
		}
		i++
		for i < len(format) && strings.ContainsRune("+-# 0123456789.", rune(format[i])) {
			i++
		}
		if i >= len(format) {
			break
		}
		if format[i] == '%' {
			continue
		}
		if format[i] == 'w' {
			wIdx = append(wIdx, argi)
		}
		argi++
	}
	if len(wIdx) == 0 {
		return nil, true
	}
	// variadic args: slice of `any` built from a fresh array
	if len(args) < 2 || args[1].Kind != VTerm || args[1].T.Sort != SortSlice {
		return nil, false
	}
	sl := args[1].T
	var out []Term
	for _, wi := range wIdx {
		el := Select(ex.regionArr(st, nil, SlRg(sl), SortIface), Add(SlOff(sl), IntLit(int64(wi))))
		out = append(out, el)
	}
	return out, true
}

func (ex *Exec) constString(st *State, v Val) (string, bool) {
	if v.Kind != VTerm {
		return "", false
	}
	if v.T.S == BEmpty.S {
		return "", true
	}
	for s, sym := range st.lits {
		if sym == v.T.S {
			return s, true
		}
	}
	return "", false
}

var _ = constant.MakeBool

func init() {
	// fmt.Fprintf with a constant format made of literal text and %s verbs
	// applied to string / []byte arguments: the written bytes are known.
	libModels["fmt.Fprintf"] = func(ex *Exec, st *State, fr *Frame, args []Val, sig *types.Signature, pos token.Pos) []Val {
		intT := types.Typ[types.Int]
		errT := types.Universe.Lookup("error").Type()
		n := ex.havocVal(st, "n_Fprintf", intT)
		e := ex.havocVal(st, "err_Fprintf", errT)
		if len(args) < 2 || args[0].Kind != VTerm || args[0].T.Sort != SortIface {
			ex.havocAll(st, true)
			return []Val{n, e}
		}
		w := args[0].T
		g := ex.db.Ghosts["$out"]
		if g == nil {
			return []Val{n, e}
		}
		hn := "G|$out"
		h := st.heap(hn, ArraySort(g.Sort))
		oldOut := Select(h, IfVal(w))
		var text Term
		known := false
		if format, ok := ex.constString(st, args[1]); ok {
			text, known = ex.renderFormat(st, format, args)
		}
		if !known {
			text = st.fresh("fmtout", SortBytes)
		}
		written := st.fresh("fmtwritten", SortInt)
		st.assume(And(Le(IntLit(0), written), Le(written, BLen(text))))
		st.assume(Implies(Eq(e.T, NilIface), Eq(written, BLen(text))))
		st.assume(Eq(n.T, written))
		st.setHeap(hn, Store(h, IfVal(w), BCat(oldOut, BSub(text, IntLit(0), written))))
		return []Val{n, e}
	}
	libModelMods["fmt.Fprintf"] = [][2]string{{"G|$out", ArraySort(SortBytes)}}
}

// renderFormat handles formats consisting of literal text and plain %s verbs
// whose operands are strings or byte slices.
func (ex *Exec) renderFormat(st *State, format string, args []Val) (Term, bool) {
	var parts []Term
	argi := 0
	lit := ""
	flush := func() {
		if lit != "" {
			parts = append(parts, st.strLit(lit))
			lit = ""
		}
	}
	var sl Term
	if len(args) >= 3 && args[2].Kind == VTerm && args[2].T.Sort == SortSlice {
		sl = args[2].T
	}
	for i := 0; i < len(format); i++ {
		c := format[i]
		if c != '%' {
			lit += string(c)
			continue
		}
		if i+1 >= len(format) {
			return Term{}, false
		}
		i++
		switch format[i] {
		case '%':
			lit += "%"
		case 's':
			if sl.S == "" {
				return Term{}, false
			}
			flush()
			el := Select(ex.regionArr(st, nil, SlRg(sl), SortIface), Add(SlOff(sl), IntLit(int64(argi))))
			argi++
			// the operand is a boxed string or []byte: its text
			strTy := IntLit(int64(typeID(types.Typ[types.String])))
			bsTy := IntLit(int64(typeID(types.NewSlice(types.Typ[types.Uint8]))))
			sfn := ex.boxFn(st, SortBytes)
			lfn := ex.boxFn(st, SortSlice)
			asStr := app(SortBytes, "un"+sfn, IfVal(el))
			asSl := app(SortSlice, "un"+lfn, IfVal(el))
			t := st.fresh("fmtarg", SortBytes)
			st.assume(Implies(Eq(IfTy(el), strTy), Eq(t, asStr)))
			st.assume(Implies(Eq(IfTy(el), bsTy), Eq(t, ex.bytesOfSlice(st, nil, asSl))))
			parts = append(parts, t)
		default:
			return Term{}, false
		}
	}
	flush()
	if len(parts) == 0 {
		return BEmpty, true
	}
	t := parts[len(parts)-1]
	for i := len(parts) - 2; i >= 0; i-- {
		t = BCat(parts[i], t)
	}
	return t, true
}

// resolveClosureVar: v is a load of a local that is assigned exactly once, a closure.
func resolveClosureVar(v ssa.Value) *ssa.Function {
	u, ok := v.(*ssa.UnOp)
	if !ok || u.Op != token.MUL {
		return nil
	}
	a, ok := u.X.(*ssa.Alloc)
	if !ok || a.Referrers() == nil {
		return nil
	}
	var fn *ssa.Function
	n := 0
	for _, r := range *a.Referrers() {
		if st, ok := r.(*ssa.Store); ok && st.Addr == a {
			n++
			if mc, ok := st.Val.(*ssa.MakeClosure); ok {
				fn, _ = mc.Fn.(*ssa.Function)
			} else if f, ok := st.Val.(*ssa.Function); ok {
				fn = f
			} else {
				return nil
			}
		}
	}
	if n == 1 {
		return fn
	}
	return nil
}

// closureStoresFreeVars: does the closure (or closures nested in it) assign a captured variable?
func closureStoresFreeVars(fn *ssa.Function) bool {
	for _, b := range fn.Blocks {
		for _, ins := range b.Instrs {
			if st, ok := ins.(*ssa.Store); ok {
				if _, ok := st.Addr.(*ssa.FreeVar); ok {
					return true
				}
			}
		}
	}
	for _, af := range fn.AnonFuncs {
		if closureStoresFreeVars(af) {
			return true
		}
	}
	return false
}

func isFreshArrayBase(v ssa.Value) bool {
	a, ok := v.(*ssa.Alloc)
	if !ok {
		return false
	}
	et, ok := derefPtr(a.Type())
	if !ok {
		return false
	}
	_, isArr := et.Underlying().(*types.Array)
	return isArr
}

// isLocalAccumulator: v loads a local slice variable that is only ever
// assigned nil / a fresh make / the result of appending to itself.
func isLocalAccumulator(v ssa.Value) bool {
	u, ok := v.(*ssa.UnOp)
	if !ok || u.Op != token.MUL {
		return false
	}
	a, ok := u.X.(*ssa.Alloc)
	if !ok || a.Referrers() == nil {
		return false
	}
	// parameters are copied into allocs by a store of the ssa.Parameter: not local
	for _, r := range *a.Referrers() {
		switch x := r.(type) {
		case *ssa.Store:
			if x.Addr != a {
				return false // address escapes
			}
			switch val := x.Val.(type) {
			case *ssa.Const:
				if !val.IsNil() {
					return false
				}
			case *ssa.Call:
				b, ok := val.Call.Value.(*ssa.Builtin)
				if !ok || b.Name() != "append" {
					return false
				}
				if u2, ok := val.Call.Args[0].(*ssa.UnOp); !ok || u2.X != a {
					return false
				}
			case *ssa.Slice:
				if _, ok := val.X.(*ssa.Alloc); !ok {
					return false
				}
			case *ssa.MakeSlice:
			default:
				return false
			}
		case *ssa.UnOp:
		case *ssa.DebugRef:
		default:
			return false
		}
	}
	return true
}

// staticOrdinal numbers the call sites of each callee within fn by source position.
func (ex *Exec) staticOrdinal(fn *ssa.Function, ins ssa.Instruction, key string) int {
	if ins == nil || fn == nil {
		return 0
	}
	m, ok := ex.siteOrd[fn]
	if !ok {
		m = map[ssa.Instruction]int{}
		type site struct {
			ins ssa.Instruction
			key string
			pos token.Pos
			idx int
		}
		var sites []site
		n := 0
		for _, b := range fn.Blocks {
			for _, i := range b.Instrs {
				var cc *ssa.CallCommon
				switch x := i.(type) {
				case *ssa.Call:
					cc = &x.Call
				case *ssa.Defer:
					cc = &x.Call
				}
				if cc == nil {
					continue
				}
				k, f := ex.calleeKey(nil, cc)
				if f == nil && !cc.IsInvoke() {
					if rf := resolveClosureVar(cc.Value); rf != nil {
						k = rf.String()
					}
				}
				n++
				sites = append(sites, site{i, k, i.Pos(), n})
			}
		}
		sort.SliceStable(sites, func(a, b int) bool {
			if sites[a].pos != sites[b].pos {
				return sites[a].pos < sites[b].pos
			}
			return sites[a].idx < sites[b].idx
		})
		count := map[string]int{}
		for _, s := range sites {
			count[s.key]++
			m[s.ins] = count[s.key]
		}
		ex.siteOrd[fn] = m
	}
	return m[ins]
}

// mentionsCalleeLocal: the evaluation error is an unknown identifier that
// names a local variable of the callee.
func (ex *Exec) mentionsCalleeLocal(key string, err error) bool {
	msg := err.Error()
	const pfx = "unknown identifier \""
	i := strings.Index(msg, pfx)
	if i < 0 {
		return false
	}
	name := msg[i+len(pfx):]
	if j := strings.Index(name, "\""); j >= 0 {
		name = name[:j]
	}
	f := ex.findFunc(key)
	if f == nil {
		return false
	}
	for _, b := range f.Blocks {
		for _, ins := range b.Instrs {
			if a, ok := ins.(*ssa.Alloc); ok && a.Comment == name {
				return true
			}
		}
	}
	return false
}

var callsRe = regexp.MustCompile(`calls\("([^"]+)",\s*(\d+)\)`)

// trackedSites: the call sites whose execution count the contract mentions
// through calls("callee", k).
func trackedSites(c *Contract) map[string]bool {
	out := map[string]bool{}
	if c == nil {
		return out
	}
	add := func(text string) {
		for _, m := range callsRe.FindAllStringSubmatch(text, -1) {
			out[m[1]+"#"+m[2]] = true
		}
	}
	for _, cl := range c.Requires {
		add(cl.Text)
	}
	for _, cl := range c.Ensures {
		add(cl.Text)
	}
	for _, cl := range c.CallReqs {
		add(cl.Text)
	}
	for _, l := range c.Loops {
		for _, cl := range l.Invariants {
			add(cl.Text)
		}
	}
	return out
}

func siteHeap(fnKey, name string, k int) string { return fmt.Sprintf("g|$site:%s:%s#%d", fnKey, name, k) }

// siteNameOf: the tracked name matching this callee key, if any.
func (ex *Exec) siteNameOf(fr *Frame, key string, ord int) string {
	if fr.contract == nil {
		return ""
	}
	for t := range ex.tracked(fr.contract) {
		i := strings.LastIndex(t, "#")
		name, k := t[:i], t[i+1:]
		if k != fmt.Sprint(ord) {
			continue
		}
		short := contractShort(key)
		if name == short || name == key || strings.HasSuffix(key, "."+name) || strings.HasSuffix(key, ")."+name) {
			return name
		}
	}
	return ""
}

func (ex *Exec) tracked(c *Contract) map[string]bool {
	if m, ok := ex.trackCache[c]; ok {
		return m
	}
	m := trackedSites(c)
	ex.trackCache[c] = m
	return m
}

// countSite increments the ghost execution counter of a tracked call site.
func (ex *Exec) countSite(st *State, fr *Frame, ins ssa.Instruction, c *ssa.CallCommon) {
	if hn := ex.siteCounterHeap(st, fr, ins, c); hn != "" {
		cur := st.heap(hn, SortInt)
		st.setHeap(hn, Add(cur, IntLit(1)))
	}
}

// siteCounterHeap: the counter heap of a tracked call site, "" if untracked.
// Sites inside an inlined closure of the function under verification are
// named "$1:callee" in that function's contract.
func (ex *Exec) siteCounterHeap(st *State, fr *Frame, ins ssa.Instruction, c *ssa.CallCommon) string {
	ct, owner, prefix := fr.contract, fr.fn, ""
	if ct == nil {
		p, ok := ex.closurePrefix(fr.fn)
		if !ok || p == "" || ex.topC == nil {
			return ""
		}
		ct, owner, prefix = ex.topC, ex.top, p
	}
	if len(ex.tracked(ct)) == 0 {
		return ""
	}
	key, f := ex.calleeKey(st, c)
	if f == nil && !c.IsInvoke() {
		if rf := resolveClosureVar(c.Value); rf != nil {
			key = rf.String()
		}
	}
	ord := ex.staticOrdinal(fr.fn, ins, key)
	for _, t := range sortedKeys(ex.tracked(ct)) {
		i := strings.LastIndex(t, "#")
		name, k := t[:i], t[i+1:]
		if k != fmt.Sprint(ord) {
			continue
		}
		bare := name
		if prefix != "" {
			if !strings.HasPrefix(name, prefix) {
				continue
			}
			bare = name[len(prefix):]
		} else if strings.Contains(name, ":") && strings.HasPrefix(name, "$") {
			continue
		}
		short := contractShort(key)
		if bare == short || bare == key || strings.HasSuffix(key, "."+bare) || strings.HasSuffix(key, ")."+bare) {
			return siteHeap(owner.String(), name, ord)
		}
	}
	return ""
}

func storedFreeVars(fn *ssa.Function) map[*ssa.FreeVar]bool {
	out := map[*ssa.FreeVar]bool{}
	for _, b := range fn.Blocks {
		for _, ins := range b.Instrs {
			if st, ok := ins.(*ssa.Store); ok {
				if fv, ok := st.Addr.(*ssa.FreeVar); ok {
					out[fv] = true
				}
			}
		}
	}
	return out
}

// exitChecks: obligations of the function under verification that must hold
// when the process exits through a non-returning callee (`exit requires ...`).
func (ex *Exec) exitChecks(st *State, fr *Frame, via string) {
	if ex.topC == nil {
		return
	}
	for _, cr := range ex.topC.CallReqs {
		if cr.Callee != "$exit" {
			continue
		}
		cenv := &Env{ex: ex, st: st, old: ex.entry, vars: map[string]Val{}, fr: fr, pkg: ex.pkgOfFrame(fr), callerLocals: true}
		t, err := ex.evalSpecBool(cr.Expr, cenv)
		if err != nil {
			ex.errors = append(ex.errors, fmt.Sprintf("%s: exit obligation %s: %v", funcKey(ex.top), cr.Label, err))
			continue
		}
		ex.check(st, fr, "exit", cr.Label, t, cr.Props, "at process exit via "+via+": "+cr.Text, "")
	}
}

var lasterrRe = regexp.MustCompile(`lasterr\("([^"]+)",\s*(\d+)\)`)

// errSites: the call sites of the function under verification (or of its
// closures, written "$1:callee") whose last error result the contract mentions
// through lasterr("callee", k).
func (ex *Exec) errSites() map[string]bool {
	return ex.errSitesOf(ex.topC)
}

func (ex *Exec) errSitesOf(c *Contract) map[string]bool {
	if c == nil {
		return nil
	}
	if ex.errSiteCache == nil {
		ex.errSiteCache = map[*Contract]map[string]bool{}
	}
	if m, ok := ex.errSiteCache[c]; ok {
		return m
	}
	out := map[string]bool{}
	add := func(text string) {
		for _, m := range lasterrRe.FindAllStringSubmatch(text, -1) {
			out[m[1]+"#"+m[2]] = true
		}
	}
	for _, cl := range c.Requires {
		add(cl.Text)
	}
	for _, cl := range c.Ensures {
		add(cl.Text)
	}
	for _, cl := range c.CallReqs {
		add(cl.Text)
	}
	for _, l := range c.Loops {
		for _, cl := range l.Invariants {
			add(cl.Text)
		}
	}
	ex.errSiteCache[c] = out
	return out
}

func siteErrHeap(fnKey, name string, k int) string {
	return fmt.Sprintf("g|$siteerr:%s:%s#%d", fnKey, name, k)
}

// closurePrefix: "" for the function under verification itself, "$1:" for its
// first closure, and so on; ok is false for unrelated functions.
func (ex *Exec) closurePrefix(fn *ssa.Function) (string, bool) {
	if fn == ex.top {
		return "", true
	}
	for p := fn.Parent(); p != nil; p = p.Parent() {
		if p == ex.top {
			return strings.TrimPrefix(fn.Name(), ex.top.Name()) + ":", true
		}
	}
	return "", false
}

// errSite: the ghost heap recording the last error returned at this call site,
// if the contract of the function under verification tracks it.
func (ex *Exec) errSite(st *State, fr *Frame, ins ssa.Instruction, c *ssa.CallCommon) string {
	sites := ex.errSites()
	if len(sites) == 0 || ex.top == nil {
		return ""
	}
	prefix, ok := ex.closurePrefix(fr.fn)
	if !ok {
		return ""
	}
	key, f := ex.calleeKey(st, c)
	if f == nil && !c.IsInvoke() {
		if rf := resolveClosureVar(c.Value); rf != nil {
			key = rf.String()
		}
	}
	ord := ex.staticOrdinal(fr.fn, ins, key)
	for _, t := range sortedKeys(sites) {
		i := strings.LastIndex(t, "#")
		name, k := t[:i], t[i+1:]
		if k != fmt.Sprint(ord) || !strings.HasPrefix(name, prefix) {
			continue
		}
		bare := name[len(prefix):]
		if strings.Contains(bare, ":") {
			continue
		}
		short := contractShort(key)
		if bare == short || bare == key || strings.HasSuffix(key, "."+bare) || strings.HasSuffix(key, ")."+bare) {
			return siteErrHeap(ex.top.String(), name, ord)
		}
	}
	return ""
}

// linkPureArgs: a callee that takes a function-valued parameter declared
// `pure` speaks about it through apply(f, k, x). When the argument is a method
// value recv.m whose method m has a contract with `modifies nothing` (or only
// ghost globals, which are then havocked at this call), the
// method's postconditions are made available for every argument x:
//   forall x. requires_m(recv, x) ==> ensures_m(recv, x, apply(f, *, x))
// (the obligations themselves are discharged in m's own verification).
func (ex *Exec) linkPureArgs(st *State, fr *Frame, ct *Contract, key string, args []Val) {
	if len(ct.Pure) == 0 {
		return
	}
	names := append([]string{}, ct.Params...)
	if f := ex.findFunc(key); f != nil {
		for j, p := range f.Params {
			if j >= len(names) {
				names = append(names, p.Name())
			} else if names[j] == "" || names[j] == "_" {
				names[j] = p.Name()
			}
		}
	}
	for i, a := range args {
		if i >= len(names) || !ct.Pure[names[i]] || a.Kind != VClosure || a.Fn == nil {
			continue
		}
		if !strings.HasSuffix(a.Fn.Name(), "$bound") || len(a.Binds) != 1 || a.Binds[0].Kind != VTerm {
			continue
		}
		m := ex.boundTarget(a.Fn)
		if m == nil {
			continue
		}
		mc := ex.db.Contracts[m.String()]
		if mc == nil || !mc.HasMod || len(m.Params) != 2 {
			continue
		}
		// the method may only write ghost globals; those are havocked here, at
		// the call that may run it (its real results are a function of the
		// receiver, the argument and the unchanged heap)
		ghostOnly := true
		for _, mm := range mc.Modifies {
			mm = strings.TrimSpace(mm)
			if !strings.HasPrefix(mm, "$") || strings.ContainsAny(mm, ".[ ") {
				ghostOnly = false
			}
		}
		if !ghostOnly {
			continue
		}
		for _, mm := range mc.Modifies {
			mm = strings.TrimSpace(mm)
			hn := "g|" + mm
			if cur, ok := st.heaps[hn]; ok {
				st.setHeap(hn, st.fresh("purehavoc", cur.Sort))
			} else if gd, ok := ex.db.Ghosts[mm]; ok && gd.Kind == "global" {
				gs := gd.Sort
				st.setHeap(hn, st.fresh("purehavoc", gs))
			}
		}
		ft, ok := ex.closureTerm(st, a)
		if !ok {
			continue
		}
		dk := "purelink:" + ft.S
		if st.decl[dk] {
			continue
		}
		st.decl[dk] = true
		sig := m.Signature
		pty := m.Params[1].Type()
		if sortOf(pty) != SortInt {
			continue
		}
		q := st.fresh("purearg", SortInt)
		qv := TV(q, pty)
		vars := map[string]Val{}
		pn := func(j int) string {
			if j < len(mc.Params) && mc.Params[j] != "" {
				return mc.Params[j]
			}
			return m.Params[j].Name()
		}
		vars[pn(0)] = a.Binds[0]
		vars[pn(1)] = qv
		for k := 0; k < sig.Results().Len(); k++ {
			rt := sig.Results().At(k).Type()
			rv := TV(ex.applyTerm(st, ft, k, []Val{qv}, sortOf(rt)), rt)
			if k < len(mc.Results) {
				vars[mc.Results[k]] = rv
			}
			vars[fmt.Sprintf("result%d", k)] = rv
		}
		snap := st.snapshot()
		env := &Env{ex: ex, st: st, old: snap, vars: vars, fr: fr, pkg: ex.pkgOfKey(m.String()), calleeCtx: true, siteFn: m.String()}
		guard := []Term{}
		okAll := true
		for _, r := range mc.Requires {
			t, err := ex.evalSpecBool(r.Expr, env)
			if err != nil {
				okAll = false
				break
			}
			guard = append(guard, t)
		}
		if !okAll {
			continue
		}
		last := sig.Results().Len() - 1
		if last < 0 {
			continue
		}
		pat := ex.applyTerm(st, ft, last, []Val{qv}, sortOf(sig.Results().At(last).Type()))
		for _, e := range mc.Ensures {
			if strings.Contains(e.Text, "old(") || strings.Contains(e.Text, "$") || strings.Contains(e.Text, "calls(") || strings.Contains(e.Text, "lasterr(") {
				continue
			}
			t, err := ex.evalSpecBool(e.Expr, env)
			if err != nil {
				continue
			}
			body := t
			if len(guard) > 0 {
				body = Implies(And(guard...), t)
			}
			txt := fmt.Sprintf("(assert (forall ((purex Int)) (! %s :pattern (%s))))", body.S, pat.S)
			txt = strings.ReplaceAll(txt, q.S, "purex")
			st.emit(txt)
		}
		ex.usedContracts[m.String()] = true
	}
}

var lastretRe = regexp.MustCompile(`last(?:ret|bytes)\("([^"]+)",\s*(\d+),\s*(\d+)\)`)

// retSites: call sites whose results the contract mentions through
// lastret("callee", k, i): result i of the latest execution of the k-th call
// site of callee (by source order) in the function under verification.
func (ex *Exec) retSites() map[string]bool {
	c := ex.topC
	if c == nil {
		return nil
	}
	if ex.retSiteCache == nil {
		ex.retSiteCache = map[*Contract]map[string]bool{}
	}
	if m, ok := ex.retSiteCache[c]; ok {
		return m
	}
	out := map[string]bool{}
	add := func(text string) {
		for _, m := range lastretRe.FindAllStringSubmatch(text, -1) {
			out[m[1]+"#"+m[2]] = true
		}
	}
	for _, cl := range c.Requires {
		add(cl.Text)
	}
	for _, cl := range c.Ensures {
		add(cl.Text)
	}
	for _, cl := range c.CallReqs {
		add(cl.Text)
	}
	for _, l := range c.Loops {
		for _, cl := range l.Invariants {
			add(cl.Text)
		}
	}
	ex.retSiteCache[c] = out
	return out
}

func siteRetHeap(fnKey, name string, k int) string {
	return fmt.Sprintf("g|$siteret:%s:%s#%d", fnKey, name, k)
}

func (ex *Exec) matchSite(fr *Frame, st *State, ins ssa.Instruction, c *ssa.CallCommon, sites map[string]bool) (string, int) {
	if len(sites) == 0 || ex.top == nil {
		return "", 0
	}
	prefix, ok := ex.closurePrefix(fr.fn)
	if !ok {
		return "", 0
	}
	key, f := ex.calleeKey(st, c)
	if f == nil && !c.IsInvoke() {
		if rf := resolveClosureVar(c.Value); rf != nil {
			key = rf.String()
		}
	}
	ord := ex.staticOrdinal(fr.fn, ins, key)
	for _, t := range sortedKeys(sites) {
		i := strings.LastIndex(t, "#")
		name, k := t[:i], t[i+1:]
		if k != fmt.Sprint(ord) || !strings.HasPrefix(name, prefix) {
			continue
		}
		bare := name[len(prefix):]
		if strings.Contains(bare, ":") {
			continue
		}
		short := contractShort(key)
		if bare == short || bare == key || strings.HasSuffix(key, "."+bare) || strings.HasSuffix(key, ")."+bare) {
			return name, ord
		}
	}
	return "", 0
}

func (ex *Exec) retSite(st *State, fr *Frame, ins ssa.Instruction, c *ssa.CallCommon) string {
	name, ord := ex.matchSite(fr, st, ins, c, ex.retSites())
	if name == "" {
		return ""
	}
	return siteRetHeap(ex.top.String(), name, ord)
}

// siteResultType finds the static type of result i of the k-th call site of
// name in the function under verification.
// siteExists: does the function under verification (or one of its closures)
// have a k-th call site of name? A site ghost that names no site is a contract
// that no longer binds to the code, not a vacuously true clause.
func (ex *Exec) siteExists(name string, k int) bool {
	found := false
	var visit func(fn *ssa.Function)
	visit = func(fn *ssa.Function) {
		fr := &Frame{fn: fn}
		for _, b := range fn.Blocks {
			for _, ins := range b.Instrs {
				var cc *ssa.CallCommon
				switch x := ins.(type) {
				case *ssa.Call:
					cc = &x.Call
				case *ssa.Defer:
					cc = &x.Call
				}
				if cc == nil {
					continue
				}
				if n, ord := ex.matchSite(fr, nil, ins, cc, map[string]bool{name + "#" + fmt.Sprint(k): true}); n != "" && ord == k {
					found = true
				}
			}
		}
		for _, af := range fn.AnonFuncs {
			visit(af)
		}
	}
	visit(ex.top)
	return found
}

func (ex *Exec) siteResultType(name string, k, i int) types.Type {
	var found types.Type
	var visit func(fn *ssa.Function)
	visit = func(fn *ssa.Function) {
		fr := &Frame{fn: fn}
		for _, b := range fn.Blocks {
			for _, ins := range b.Instrs {
				var cc *ssa.CallCommon
				switch x := ins.(type) {
				case *ssa.Call:
					cc = &x.Call
				case *ssa.Defer:
					cc = &x.Call
				}
				if cc == nil {
					continue
				}
				if n, ord := ex.matchSite(fr, nil, ins, cc, map[string]bool{name + "#" + fmt.Sprint(k): true}); n != "" && ord == k {
					res := cc.Signature().Results()
					if i < res.Len() {
						found = res.At(i).Type()
					}
				}
			}
		}
		for _, af := range fn.AnonFuncs {
			visit(af)
		}
	}
	visit(ex.top)
	return found
}

package main

// Discharging obligations: one incremental script per path on z3 5.1 first;
// anything not settled is re-posed individually to z3 4.8 and cvc5.

import (
	"bytes"
	"go/types"

	"golang.org/x/tools/go/ssa"
	"encoding/hex"
	"regexp"
	"sort"
	"context"
	"fmt"
	"os"
	"os/exec"
	"path/filepath"
	"strings"
	"sync"
	"time"
)

type CheckResult struct {
	Check  *Check
	Status string // discharged | failed | unknown | trivial | cover-ok | vacuous
	Solver string
	Secs   float64
	Model  string
	Output string
	Query  string // path to the single-check query when failed/unknown
	replayDone bool
	replayOK   bool
	replayRec  map[string]interface{}
}

type Solver struct {
	Name string
	Cmd  func(file string, timeoutMs int) []string
	Pre  string
}

var solvers = []Solver{
	{Name: "z3-5.1.0", Cmd: func(f string, ms int) []string {
		return []string{"z3-new", "-smt2", fmt.Sprintf("-T:%d", ms/1000+5), f}
	}},
	{Name: "z3-4.8.12", Cmd: func(f string, ms int) []string {
		return []string{"z3", "-smt2", fmt.Sprintf("-T:%d", ms/1000+5), f}
	}},
	{Name: "cvc5-1.0.3", Cmd: func(f string, ms int) []string {
		return []string{"cvc5", "--incremental", fmt.Sprintf("--tlimit-per=%d", ms), f}
	}, Pre: "(set-logic ALL)\n"},
}

type Prelude struct {
	decls  string
	axioms []axiom
}

func (db *SpecDB) prelude() *Prelude {
	var sb strings.Builder
	sb.WriteString(preludeDecls)
	for _, name := range sortedSpecFns(db) {
		f := db.SpecFns[name]
		if len(f.Params) == 0 {
			fmt.Fprintf(&sb, "(declare-const %s %s)\n", f.Name, f.Result)
		} else {
			fmt.Fprintf(&sb, "(declare-fun %s (%s) %s)\n", f.Name, strings.Join(f.Params, " "), f.Result)
		}
	}
	p := &Prelude{decls: sb.String(), axioms: append([]axiom{}, coreAxioms...)}
	// defined spec functions: (define-fun name ((p Int) ...) Int body)
	for _, name := range db.DefineOrder {
		d := db.Defines[name]
		ex := &Exec{db: db, loopCache: map[*ssa.Function]*LoopInfo{}, usedUnknown: map[string]bool{}, usedContracts: map[string]bool{}, siteOrd: map[*ssa.Function]map[ssa.Instruction]int{}, trackCache: map[*Contract]map[string]bool{}}
		st := newState(ex)
		st.allocCtr = IntLit(1)
		vars := map[string]Val{}
		var ps []string
		for _, pn := range d.Params {
			vars[pn] = TV(mkTerm("d_"+pn, SortInt), types.Typ[types.Int])
			ps = append(ps, "(d_"+pn+" Int)")
		}
		v, err := ex.evalSpec(d.Body, &Env{ex: ex, st: st, vars: vars})
		if err != nil || v.Kind != VTerm {
			panic(fmt.Sprintf("define %s: %v", name, err))
		}
		p.axioms = append(p.axioms, axiom{name, fmt.Sprintf("(define-fun %s (%s) %s %s)", name, strings.Join(ps, " "), v.T.Sort, v.T.S)})
	}
	for _, l := range db.SMT {
		// "smt @sym (assert ...)" gives the trigger explicitly; otherwise the
		// head symbol of the first :pattern is used; none = always included
		trig := ""
		if strings.HasPrefix(l, "@") {
			k := strings.IndexAny(l, " \t")
			trig = l[1:k]
			l = strings.TrimSpace(l[k:])
		} else if k := strings.Index(l, ":pattern (("); k >= 0 {
			rest := l[k+len(":pattern (("):]
			if e := strings.IndexAny(rest, " )"); e >= 0 {
				trig = rest[:e]
			}
		}
		p.axioms = append(p.axioms, axiom{trig, l})
	}
	return p
}

// render selects the axioms relevant to body (fixpoint over trigger symbols).
func (p *Prelude) render(body string) string {
	var sb strings.Builder
	sb.WriteString(p.decls)
	included := make([]bool, len(p.axioms))
	text := body
	for changed := true; changed; {
		changed = false
		for i, a := range p.axioms {
			if included[i] {
				continue
			}
			if a.trigger == "" || containsSym(text, a.trigger) {
				included[i] = true
				changed = true
				text += "\n" + a.text
			}
		}
	}
	for i, a := range p.axioms {
		if included[i] {
			sb.WriteString(a.text)
			sb.WriteString("\n")
		}
	}
	return sb.String()
}

func containsSym(text, sym string) bool {
	for i := 0; ; {
		k := strings.Index(text[i:], sym)
		if k < 0 {
			return false
		}
		k += i
		end := k + len(sym)
		okL := k == 0 || strings.ContainsRune("( \n\t", rune(text[k-1]))
		okR := end >= len(text) || strings.ContainsRune(") \n\t", rune(text[end]))
		if okL && okR {
			return true
		}
		i = k + 1
	}
}

func sortedSpecFns(db *SpecDB) []string {
	m := map[string]bool{}
	for k := range db.SpecFns {
		m[k] = true
	}
	return sortedKeys(m)
}

// buildScript renders cmds[:upto] with only check `only` posed (or all if only<0).
func buildScript(prelude *Prelude, pre string, cmds []Cmd, only int, timeoutMs int, model bool) string {
	bridge := false
	for _, c := range cmds {
		if c.Text == ";;mode bvbridge" {
			bridge = true
		}
	}
	var hd, sb strings.Builder
	if model {
		hd.WriteString("(set-option :produce-models true)\n")
	}
	hd.WriteString(pre)
	isZ3 := !strings.Contains(pre, "set-logic")
	if isZ3 {
		fmt.Fprintf(&hd, "(set-option :timeout %d)\n", timeoutMs)
	}
	for i, c := range cmds {
		if c.Check == nil {
			sb.WriteString(c.Text)
			sb.WriteString("\n")
			continue
		}
		ck := c.Check
		if only >= 0 && i > only {
			break
		}
		if (only < 0 || i == only) && !ck.Trivial {
			sb.WriteString("(push 1)\n")
			if !ck.ExpectSat {
				fmt.Fprintf(&sb, "(assert (not %s))\n", ck.Goal)
			} else if isZ3 {
				sb.WriteString("(set-option :timeout 2000)\n")
			}
			fmt.Fprintf(&sb, "(echo \"@@check %d\")\n(check-sat)\n", i)
			if model && only == i {
				sb.WriteString("(get-model)\n")
			}
			sb.WriteString("(pop 1)\n")
			if ck.ExpectSat && isZ3 {
				fmt.Fprintf(&sb, "(set-option :timeout %d)\n", timeoutMs)
			}
		}
		if !ck.ExpectSat && !ck.NoAssume {
			fmt.Fprintf(&sb, "(assert %s)\n", ck.Goal)
		}
	}
	body := sb.String()
	pre2 := prelude.render(body)
	axioms := pre2[len(prelude.decls):]
	// order: sort/function declarations, literals, bit operations, axioms, path
	return hd.String() + renderLits(pre2+body, prelude.decls) + renderBvops(axioms+body, bridge) + axioms + body
}

var litRe = regexp.MustCompile(`lit_[0-9a-fh_]+`)

// renderLits declares every string literal mentioned in text, with its
// length, its bytes (short literals) and pairwise distinctness.
func renderLits(text, decls string) string {
	var sb strings.Builder
	sb.WriteString(decls)
	seen := map[string]bool{}
	var syms []string
	for _, m := range litRe.FindAllString(text, -1) {
		if !seen[m] {
			seen[m] = true
			syms = append(syms, m)
		}
	}
	sort.Strings(syms)
	litMu.Lock()
	defer litMu.Unlock()
	var declared []string
	for _, sym := range syms {
		content, ok := litTable[sym]
		if !ok {
			// named by a theory axiom only: decode the hex form
			if strings.HasPrefix(sym, "lit_h") {
				continue
			}
			b, err := hex.DecodeString(sym[4:])
			if err != nil {
				continue
			}
			content = string(b)
		}
		fmt.Fprintf(&sb, "(declare-const %s Bytes)\n(assert (= (b.len %s) %d))\n", sym, sym, len(content))
		if len(content) <= 80 {
			for i := 0; i < len(content); i++ {
				fmt.Fprintf(&sb, "(assert (= (b.at %s %d) %d))\n", sym, i, content[i])
			}
		}
		declared = append(declared, sym)
	}
	if len(declared) > 1 {
		fmt.Fprintf(&sb, "(assert (distinct %s b.empty))\n", strings.Join(declared, " "))
	} else if len(declared) == 1 {
		fmt.Fprintf(&sb, "(assert (not (= %s b.empty)))\n", declared[0])
	}
	return sb.String()
}

func runSolver(s Solver, script string, dir string, tag string, timeoutMs int, nchecks int) (string, float64, error) {
	f := filepath.Join(dir, tag+".smt2")
	if err := os.WriteFile(f, []byte(script), 0644); err != nil {
		return "", 0, err
	}
	args := s.Cmd(f, timeoutMs)
	total := time.Duration(timeoutMs*(nchecks+1)+10000) * time.Millisecond
	ctx, cancel := context.WithTimeout(context.Background(), total)
	defer cancel()
	cmd := exec.CommandContext(ctx, args[0], args[1:]...)
	var out bytes.Buffer
	cmd.Stdout = &out
	cmd.Stderr = &out
	t0 := time.Now()
	err := cmd.Run()
	secs := time.Since(t0).Seconds()
	_ = err // z3 4.8 exits 1 on get-model after unsat; only the output matters
	return out.String(), secs, nil
}

// parseAnswers maps check index -> first answer line after its marker.
func parseAnswers(out string) (map[int]string, map[int]string) {
	ans := map[int]string{}
	extra := map[int]string{}
	cur := -1
	var buf []string
	flush := func() {
		if cur >= 0 {
			extra[cur] = strings.Join(buf, "\n")
		}
		buf = nil
	}
	for _, l := range strings.Split(out, "\n") {
		t := strings.TrimSpace(strings.Trim(strings.TrimSpace(l), "\""))
		if strings.HasPrefix(t, "@@check ") {
			flush()
			fmt.Sscanf(t, "@@check %d", &cur)
			continue
		}
		if cur >= 0 {
			if _, ok := ans[cur]; !ok && (t == "sat" || t == "unsat" || t == "unknown" || strings.HasPrefix(t, "timeout")) {
				ans[cur] = t
				continue
			}
			buf = append(buf, l)
		}
	}
	flush()
	return ans, extra
}

type solveCfg struct {
	dir       string
	timeoutMs int
	workers   int
	cross     bool // thorough: cross-check every discharged obligation on a second solver
	prelude   *Prelude
}

func solveAll(paths []*PathResult, cfg solveCfg) []*CheckResult {
	// one solver process per obligation: incremental sessions accumulate
	// quantifier instantiations and were measured to turn 0.03 s goals into
	// 10 s timeouts
	type job struct {
		pi, ci int
		p      *PathResult
	}
	var results []*CheckResult
	var jobsList []job
	for pi, p := range paths {
		for ci, c := range p.Script {
			if c.Check == nil {
				continue
			}
			if c.Check.Trivial {
				results = append(results, &CheckResult{Check: c.Check, Status: "trivial", Solver: "partial-evaluation"})
				continue
			}
			jobsList = append(jobsList, job{pi, ci, p})
		}
	}
	jobs := make(chan job)
	var mu sync.Mutex
	var wg sync.WaitGroup
	for w := 0; w < cfg.workers; w++ {
		wg.Add(1)
		go func() {
			defer wg.Done()
			for j := range jobs {
				r := solveOne(j.pi, j.ci, j.p, cfg)
				mu.Lock()
				results = append(results, r)
				mu.Unlock()
			}
		}()
	}
	for _, j := range jobsList {
		jobs <- j
	}
	close(jobs)
	wg.Wait()
	return results
}

// solveOne races the three back ends on one obligation; the first definitive
// answer wins and the others are cancelled. A definitive "sat" from one solver
// and "unsat" from another (seen only when both finish) is an engine error.
func solveOne(pi, i int, p *PathResult, cfg solveCfg) *CheckResult {
	ck := p.Script[i].Check
	tmo := cfg.timeoutMs
	if ck.ExpectSat {
		tmo = 2000
	}
	if ck.TimeoutMs > tmo {
		tmo = ck.TimeoutMs
	}
	type res struct {
		si   int
		ans  string
		secs float64
		out  string
		file string
	}
	ctx, cancel := context.WithCancel(context.Background())
	defer cancel()
	ch := make(chan res, len(solvers))
	n := len(solvers)
	if ck.ExpectSat {
		n = 1
	}
	for si := 0; si < n; si++ {
		go func(si int) {
			s := solvers[si]
			q := buildScript(cfg.prelude, s.Pre, p.Script, i, tmo, !ck.ExpectSat)
			if ck.Raw != "" {
				q = fmt.Sprintf("(set-option :produce-models true)\n%s(get-model)\n", strings.Replace(ck.Raw, "(check-sat)", fmt.Sprintf("(echo \"@@check %d\")\n(check-sat)", i), 1))
			}
			tag := fmt.Sprintf("p%d_c%d_s%d", pi, i, si)
			f := filepath.Join(cfg.dir, tag+".smt2")
			os.WriteFile(f, []byte(q), 0644)
			args := s.Cmd(f, tmo)
			c2, cancel2 := context.WithTimeout(ctx, time.Duration(tmo+5000)*time.Millisecond)
			defer cancel2()
			cmd := exec.CommandContext(c2, args[0], args[1:]...)
			var out bytes.Buffer
			cmd.Stdout = &out
			cmd.Stderr = &out
			t0 := time.Now()
			cmd.Run()
			a, extra := parseAnswers(out.String())
			ch <- res{si, a[i], time.Since(t0).Seconds(), extra[i], f}
		}(si)
	}
	r := &CheckResult{Check: ck, Status: "unknown"}
	// query files are removed as soon as the obligation is decided, except the
	// one a report will quote (a mutated tree once left 128 GB of them behind)
	defer func() {
		for si := 0; si < n; si++ {
			f := filepath.Join(cfg.dir, fmt.Sprintf("p%d_c%d_s%d.smt2", pi, i, si))
			if f != r.Query {
				os.Remove(f)
			}
		}
	}()
	var sat, unsat *res
	var last res
	for k := 0; k < n; k++ {
		x := <-ch
		last = x
		if x.ans == "unsat" && unsat == nil {
			xx := x
			unsat = &xx
			if !cfg.cross {
				break
			}
		}
		if x.ans == "sat" && sat == nil {
			xx := x
			sat = &xx
			if !cfg.cross && !ck.ExpectSat {
				// give the others no more time: a model is a model
				break
			}
		}
	}
	cancel()
	if ck.ExpectSat {
		if last.ans == "unsat" {
			r.Status = "vacuous"
		} else {
			r.Status = "cover-ok"
		}
		r.Solver = solvers[0].Name
		r.Secs = last.secs
		return r
	}
	switch {
	case sat != nil && unsat != nil:
		r.Status = "engine-error"
		r.Output = fmt.Sprintf("solver disagreement on %s: %s sat, %s unsat", ck.Name, solvers[sat.si].Name, solvers[unsat.si].Name)
	case unsat != nil:
		r.Status = "discharged"
		r.Solver = solvers[unsat.si].Name
		r.Secs = unsat.secs
	case sat != nil:
		r.Status = "failed"
		r.Solver = solvers[sat.si].Name
		r.Secs = sat.secs
		r.Model = sat.out
		r.Query = sat.file
	default:
		r.Output = "no solver gave a definitive answer within the timeout"
		r.Query = last.file
		r.Secs = last.secs
	}
	return r
}

func retrySingle(pi, i int, p *PathResult, cfg solveCfg, firstAns, firstOut string) *CheckResult {
	ck := p.Script[i].Check
	r := &CheckResult{Check: ck, Status: "unknown", Output: "primary solver answer: " + firstAns}
	if firstAns == "" {
		r.Output = "primary solver gave no answer; output:\n" + tail(firstOut, 2000)
	}
	type res struct {
		s    Solver
		ans  string
		secs float64
		out  string
		file string
	}
	ch := make(chan res, len(solvers))
	for si, s := range solvers {
		go func(si int, s Solver) {
			q := buildScript(cfg.prelude, s.Pre, p.Script, i, cfg.timeoutMs, true)
			tag := fmt.Sprintf("p%d_c%d_s%d", pi, i, si)
			t, secs, _ := runSolver(s, q, cfg.dir, tag, cfg.timeoutMs, 1)
			a, extra := parseAnswers(t)
			ch <- res{s, a[i], secs, extra[i], filepath.Join(cfg.dir, tag+".smt2")}
		}(si, s)
	}
	var sat *res
	for range solvers {
		x := <-ch
		if x.ans == "unsat" && r.Status != "discharged" {
			r.Status = "discharged"
			r.Solver = x.s.Name
			r.Secs = x.secs
		}
		if x.ans == "sat" && sat == nil {
			xx := x
			sat = &xx
		}
		if r.Query == "" {
			r.Query = x.file
		}
	}
	if r.Status == "discharged" && sat != nil {
		r.Status = "engine-error"
		r.Output = "solver disagreement (sat vs unsat) on " + ck.Name
		return r
	}
	if r.Status != "discharged" && sat != nil {
		r.Status = "failed"
		r.Solver = sat.s.Name
		r.Secs = sat.secs
		r.Model = sat.out
		r.Query = sat.file
	}
	return r
}

func tail(s string, n int) string {
	if len(s) <= n {
		return s
	}
	return s[len(s)-n:]
}

var bvopRe = regexp.MustCompile(`bvop\.(and|or|xor|shl|shr|andnot)(8|16|32|64)`)

// renderBvops declares the bit operations a query mentions: uninterpreted
// (with range facts) by default, defined through int2bv/bv2nat in bvbridge mode.
func renderBvops(body string, bridge bool) string {
	seen := map[string]bool{}
	var sb strings.Builder
	for _, m := range bvopRe.FindAllStringSubmatch(body, -1) {
		fn := m[0]
		if seen[fn] {
			continue
		}
		seen[fn] = true
		op, w := m[1], m[2]
		if bridge {
			bv := map[string]string{"and": "bvand", "or": "bvor", "xor": "bvxor", "shl": "bvshl", "shr": "bvlshr"}[op]
			if op == "andnot" {
				fmt.Fprintf(&sb, "(define-fun %s ((a Int) (b Int)) Int (bv2nat (bvand ((_ int2bv %s) a) (bvnot ((_ int2bv %s) b)))))\n", fn, w, w)
			} else {
				fmt.Fprintf(&sb, "(define-fun %s ((a Int) (b Int)) Int (bv2nat (%s ((_ int2bv %s) a) ((_ int2bv %s) b))))\n", fn, bv, w, w)
			}
		} else {
			fmt.Fprintf(&sb, "(declare-fun %s (Int Int) Int)\n", fn)
			// elementary bounds that hold for the bit-vector meaning
			switch op {
			case "and":
				fmt.Fprintf(&sb, "(assert (forall ((a Int) (b Int)) (! (=> (and (>= a 0) (>= b 0)) (and (>= (%s a b) 0) (<= (%s a b) a) (<= (%s a b) b))) :pattern ((%s a b)))))\n", fn, fn, fn, fn)
			case "shr":
				fmt.Fprintf(&sb, "(assert (forall ((a Int) (b Int)) (! (=> (and (>= a 0) (>= b 0)) (and (>= (%s a b) 0) (<= (%s a b) a))) :pattern ((%s a b)))))\n", fn, fn, fn)
			case "andnot":
				fmt.Fprintf(&sb, "(assert (forall ((a Int) (b Int)) (! (=> (and (>= a 0) (>= b 0)) (and (>= (%s a b) 0) (<= (%s a b) a))) :pattern ((%s a b)))))\n", fn, fn, fn)
			default:
				fmt.Fprintf(&sb, "(assert (forall ((a Int) (b Int)) (! (=> (and (>= a 0) (>= b 0)) (>= (%s a b) 0)) :pattern ((%s a b)))))\n", fn, fn)
			}
		}
	}
	return sb.String()
}

package main

// Symbolic state: SSA registers, local cells, versioned heap arrays, the
// path's SMT script (assumptions and checks in program order).

import (
	"encoding/hex"
	"fmt"
	"sync"
	"go/types"
	"hash/fnv"
	"sort"
	"strings"

	"golang.org/x/tools/go/ssa"
)

type VKind int

const (
	VTerm VKind = iota
	VTuple
	VCellPtr
	VFieldPtr
	VElemPtr
	VClosure // closure or plain function value
	VNil     // untyped nil in spec expressions
	VGlobalPtr
)

type Cell struct {
	ID   int
	Name string
	Ty   types.Type
}

type Val struct {
	Kind  VKind
	T     Term
	Ty    types.Type
	Tuple []Val
	Cell  *Cell
	// VFieldPtr
	Obj     Term
	Heap    string
	FieldTy types.Type
	// VElemPtr
	Rg, Idx Term
	ElemTy  types.Type
	// VClosure
	Fn    *ssa.Function
	Binds []Val
	// VGlobalPtr
	Global *ssa.Global
}

func TV(t Term, ty types.Type) Val { return Val{Kind: VTerm, T: t, Ty: ty} }

type Check struct {
	Name      string // obligation name: <func>/<class>#<label>
	Class     string
	Fn        string
	Props     []string
	Goal      string
	Trivial   bool // goal folded to true
	ExpectSat bool // cover / canary: must NOT be unsat
	Raw       string // complete stand-alone query (pure QF_BV lemma)
	TimeoutMs int    // per-obligation timeout override
	NoAssume  bool   // do not add the goal to the context of later checks (independent postconditions)
	Info      string
	Path      string
	Src       string
	Replay    *ReplayInfo // recipe for replaying a counterexample on the real code, if the function qualifies
}

type Cmd struct {
	Text  string
	Check *Check
}

type deferred struct {
	call *ssa.CallCommon
	fn   Val
	args []Val
	recv Val
}

type State struct {
	regs    map[ssa.Value]Val
	cells   map[*Cell]Val
	heaps   map[string]Term
	hver    map[string]int
	hsort   map[string]string
	decl    map[string]bool
	script  []Cmd
	nfresh  int
	ncell   int
	allocs  []string // fresh object/region symbols (pairwise distinct)
	globals []string // declared sentinel globals (pairwise distinct)
	lits    map[string]string // literal content -> symbol
	litsyms []string
	defers  [][]deferred
	iters   map[ssa.Value]Term
	path    []string
	variant map[string]Term // loop key -> variant value at loop head
	inLoop  map[string]bool // loop heads already entered on this path (cut loops)
	notes   []string
	callN   map[string]int // callee short name -> count so far (for call-site obligations)
	imprecise bool
	// epochDirty: some havoc-everything on this path was NOT a loop-head havoc
	// covered by the assumed loop frame; a heap first touched afterwards then
	// has no known relation to its entry value
	epochDirty bool
	dead      bool // the path ended inside a callee that does not return
	epochAll  int
	epochExt  int
	allocCtr  Term // every object/region id known so far is below this
	ex      *Exec
}

func (st *State) clone() *State {
	n := &State{
		regs: make(map[ssa.Value]Val, len(st.regs)), cells: make(map[*Cell]Val, len(st.cells)),
		heaps: make(map[string]Term, len(st.heaps)), hver: make(map[string]int, len(st.hver)),
		hsort: st.hsort, decl: make(map[string]bool, len(st.decl)),
		script: st.script[:len(st.script):len(st.script)], nfresh: st.nfresh, ncell: st.ncell,
		allocs: st.allocs[:len(st.allocs):len(st.allocs)], globals: st.globals[:len(st.globals):len(st.globals)],
		lits: make(map[string]string, len(st.lits)), litsyms: st.litsyms[:len(st.litsyms):len(st.litsyms)],
		iters: make(map[ssa.Value]Term, len(st.iters)), path: st.path[:len(st.path):len(st.path)],
		variant: make(map[string]Term, len(st.variant)), inLoop: make(map[string]bool, len(st.inLoop)),
		notes: st.notes[:len(st.notes):len(st.notes)], callN: make(map[string]int, len(st.callN)),
		imprecise: st.imprecise, epochDirty: st.epochDirty, ex: st.ex, epochAll: st.epochAll, epochExt: st.epochExt, allocCtr: st.allocCtr,
	}
	for k, v := range st.regs {
		n.regs[k] = v
	}
	for k, v := range st.cells {
		n.cells[k] = v
	}
	for k, v := range st.heaps {
		n.heaps[k] = v
	}
	for k, v := range st.hver {
		n.hver[k] = v
	}
	for k, v := range st.decl {
		n.decl[k] = v
	}
	for k, v := range st.lits {
		n.lits[k] = v
	}
	for k, v := range st.iters {
		n.iters[k] = v
	}
	for k, v := range st.variant {
		n.variant[k] = v
	}
	for k, v := range st.inLoop {
		n.inLoop[k] = v
	}
	for k, v := range st.callN {
		n.callN[k] = v
	}
	n.defers = make([][]deferred, len(st.defers))
	for i, d := range st.defers {
		n.defers[i] = d[:len(d):len(d)]
	}
	return n
}

func (st *State) emit(s string) { st.script = append(st.script, Cmd{Text: s}) }

func (st *State) declare(sym, sort string) {
	if st.decl[sym] {
		return
	}
	st.decl[sym] = true
	st.emit(fmt.Sprintf("(declare-const %s %s)", sym, sort))
}

func (st *State) assume(t Term) {
	if t.B == 1 {
		return
	}
	st.emit("(assert " + t.S + ")")
}

func (st *State) note(s string) { st.notes = append(st.notes, s) }

func mangle(s string) string {
	var sb strings.Builder
	for _, c := range s {
		switch {
		case c >= 'a' && c <= 'z', c >= 'A' && c <= 'Z', c >= '0' && c <= '9', c == '_':
			sb.WriteRune(c)
		case c == '$':
			sb.WriteString("G.")
		default:
			sb.WriteRune('.')
		}
	}
	return sb.String()
}

func (st *State) fresh(hint, sort string) Term {
	st.nfresh++
	sym := fmt.Sprintf("v%d_%s", st.nfresh, mangle(hint))
	st.declare(sym, sort)
	return mkTerm(sym, sort)
}

// freshAlloc returns a new object/region identifier distinct from every
// other allocation on this path and from everything that existed at entry.
func (st *State) freshAlloc(hint string) Term {
	t := st.fresh("new_"+hint, SortInt)
	st.assume(Gt(t, IntLit(0)))
	st.assume(Ge(t, st.allocCtr))
	st.assume(Not(mkTerm("(isold "+t.S+")", SortBool)))
	st.assume(Eq(mkTerm("(rg.kind "+t.S+")", SortInt), IntLit(0)))
	st.allocCtr = Add(t, IntLit(1))
	st.allocs = append(st.allocs, t.S)
	return t
}

// bumpAlloc: a callee (or a loop body) may have allocated; ids it returns are
// below the new counter, ids allocated later are above it.
func (st *State) bumpAlloc() {
	n := st.fresh("allocctr", SortInt)
	st.assume(Ge(n, st.allocCtr))
	st.allocCtr = n
}

// known records that an id obtained from memory or from a callee denotes
// something already allocated.
func (st *State) known(id Term) {
	if id.K != nil {
		return
	}
	st.assume(Lt(id, st.allocCtr))
	// if id is the region of an embedded array field, its owner object is
	// already allocated too
	st.assume(Lt(mkTerm("(rg.owner "+id.S+")", SortInt), st.allocCtr))
}

func heapSym(name string) string { return "H_" + mangle(name) }

// heap returns the current term of a heap array, declaring version 0 lazily.
func (st *State) heap(name, sort string) Term {
	if t, ok := st.heaps[name]; ok {
		return t
	}
	t := st.lazyHeap(name, sort, st.epochAll, st.epochExt)
	st.heaps[name] = t
	if st.ex != nil && !st.epochDirty && !strings.HasSuffix(t.S, "_0") {
		// first touched after loop-head havocs only: the loop frame (an implicit
		// invariant checked on every back edge) relates it to the entry value
		st.ex.lazyLoopFrame(st, name, t)
	}
	return t
}

// lazyHeap names the value a heap that has never been touched on this path
// had at the point identified by the havoc epochs: version 0 (the entry value)
// unless a havoc-everything happened before.
func (st *State) lazyHeap(name, sort string, epochAll, epochExt int) Term {
	if protectedHeap(name) {
		epochExt = 0
	}
	sym := heapSym(name) + "_0"
	if epochAll != 0 || epochExt != 0 {
		sym = fmt.Sprintf("%s_e%dx%d", heapSym(name), epochAll, epochExt)
	}
	st.declare(sym, sort)
	return mkTerm(sym, sort)
}

func (st *State) heapV0(name, sort string) Term {
	return st.lazyHeap(name, sort, 0, 0)
}

// setHeap installs a new version whose value is t.
func (st *State) setHeap(name string, t Term) {
	st.heap(name, t.Sort) // ensure the pre-value is named for old()
	st.hver[name]++
	sym := fmt.Sprintf("%s_%d", heapSym(name), st.hver[name])
	for st.decl[sym] {
		st.hver[name]++
		sym = fmt.Sprintf("%s_%d", heapSym(name), st.hver[name])
	}
	st.declare(sym, t.Sort)
	nt := mkTerm(sym, t.Sort)
	st.emit(fmt.Sprintf("(assert (= %s %s))", sym, t.S))
	st.heaps[name] = nt
}

// havocHeap installs an unconstrained new version.
func (st *State) havocHeap(name, sort string) Term {
	st.heap(name, sort)
	st.hver[name]++
	sym := fmt.Sprintf("%s_%d", heapSym(name), st.hver[name])
	for st.decl[sym] {
		st.hver[name]++
		sym = fmt.Sprintf("%s_%d", heapSym(name), st.hver[name])
	}
	st.declare(sym, sort)
	nt := mkTerm(sym, sort)
	st.heaps[name] = nt
	return nt
}

type Snapshot struct {
	heaps    map[string]Term
	cells    map[*Cell]Val
	epochAll int
	epochExt int
}

func (st *State) snapshot() *Snapshot {
	s := &Snapshot{heaps: make(map[string]Term, len(st.heaps)), cells: make(map[*Cell]Val, len(st.cells)), epochAll: st.epochAll, epochExt: st.epochExt}
	for k, v := range st.heaps {
		s.heaps[k] = v
	}
	for k, v := range st.cells {
		s.cells[k] = v
	}
	return s
}

// heapAt returns the value of a heap in a snapshot (version 0 if the heap was
// untouched when the snapshot was taken).
func (st *State) heapAt(snap *Snapshot, name, sort string) Term {
	if snap == nil {
		return st.heap(name, sort)
	}
	if t, ok := snap.heaps[name]; ok {
		return t
	}
	return st.lazyHeap(name, sort, snap.epochAll, snap.epochExt)
}

// ---- string literals ---------------------------------------------------

// String literals are global constants lit_<hex> (content-addressed), so
// theory axioms can name them; their declarations and defining facts are
// emitted by buildScript for every literal a query mentions.
var (
	litMu    sync.Mutex
	litTable = map[string]string{} // symbol -> content
)

func litSym(s string) string {
	var sym string
	if len(s) <= 24 {
		sym = "lit_" + hex.EncodeToString([]byte(s))
	} else {
		h := fnv.New64a()
		h.Write([]byte(s))
		sym = fmt.Sprintf("lit_h%016x_%d", h.Sum64(), len(s))
	}
	litMu.Lock()
	litTable[sym] = s
	litMu.Unlock()
	return sym
}

func (st *State) strLit(s string) Term {
	if s == "" {
		return BEmpty
	}
	sym := litSym(s)
	st.lits[s] = sym
	return mkTerm(sym, SortBytes)
}

// ---- sentinel globals -------------------------------------------------

func (st *State) sentinel(name, sort string) Term {
	sym := "G_" + mangle(name)
	if !st.decl[sym] {
		st.declare(sym, sort)
		if sort == SortIface {
			st.emit(fmt.Sprintf("(assert (not (= %s (mk-iface 0 0))))", sym))
			st.emit(fmt.Sprintf("(assert (isold (i.val %s)))", sym))
			if strings.HasPrefix(name, repoPrefix) {
				st.emit(fmt.Sprintf("(assert (not (liberr %s)))", sym))
			}
			st.emit(fmt.Sprintf("(assert (forall ((t Iface)) (! (= (wraps %s t) (= t %s)) :pattern ((wraps %s t)))))", sym, sym, sym))
			for _, o := range st.globals {
				st.emit(fmt.Sprintf("(assert (not (= %s %s)))", sym, o))
			}
			st.globals = append(st.globals, sym)
		}
	}
	if sort == SortInt && !st.decl["nz:"+sym] {
		st.decl["nz:"+sym] = true
		st.emit(fmt.Sprintf("(assert (> %s 0))", sym))
		st.emit(fmt.Sprintf("(assert (isold %s))", sym))
	}
	return mkTerm(sym, sort)
}

func sortedKeys(m map[string]bool) []string {
	var out []string
	for k := range m {
		out = append(out, k)
	}
	sort.Strings(out)
	return out
}

// useBvop records that a query mentions an uninterpreted bit operation; the
// declaration (or, in bvbridge mode, the definition) is emitted by buildScript.
func (st *State) useBvop(fn string) { st.decl["bvop:"+fn] = true }

// branch facts: atomic conditions already assumed on this path, by term text.
func branchKey(c Term) (string, bool) {
	if strings.HasPrefix(c.S, "(not ") && strings.HasSuffix(c.S, ")") {
		return c.S[5 : len(c.S)-1], true
	}
	return c.S, false
}

func (st *State) branchFact(c Term) (truth, ok bool) {
	key, neg := branchKey(c)
	if st.decl["fact:"+key] {
		return !neg, true
	}
	if st.decl["nfact:"+key] {
		return neg, true
	}
	return false, false
}

func (st *State) recordBranch(c Term, truth bool) {
	key, neg := branchKey(c)
	if neg {
		truth = !truth
	}
	if truth {
		st.decl["fact:"+key] = true
	} else {
		st.decl["nfact:"+key] = true
	}
}

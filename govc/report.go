package main

import (
	"encoding/json"
	"fmt"
	"os"
	"path/filepath"
	"sort"
	"strconv"
	"strings"
	"time"
)

type FuncInfo struct {
	Key       string `json:"function"`
	Paths     int    `json:"paths"`
	Mode      string `json:"arithmetic"`
	Lemma     bool   `json:"lemma,omitempty"`
	ExitPaths int    `json:"exit_paths"`
}

type MissingFn struct {
	Key   string
	Props []string
	File  string
}

type EngineErr struct {
	Fn    string
	Msg   string
	Props []string
}

type Report struct {
	CallCovers int
	Prop         string
	Tier         string
	DB           *SpecDB
	Start        time.Time
	LoadSecs     float64
	GenSecs      float64
	SolveSecs    float64
	Funcs        []FuncInfo
	Missing      []MissingFn
	EngineErrors []EngineErr
	Results      []*CheckResult
	Extra        []*CheckResult
	UsedContracts map[string]bool
	Unknown      map[string]bool
	Notes        map[string]bool
}

type Oblig struct {
	Name      string   `json:"name"`
	Class     string   `json:"class"`
	Props     []string `json:"properties"`
	Instances int      `json:"path_instances"`
	Status    string   `json:"status"`
	Solver    string   `json:"solver"`
	Secs      float64  `json:"seconds"`
	Info      string   `json:"clause,omitempty"`
	Src       string   `json:"source,omitempty"`
	fail      *CheckResult
}

type finding struct {
	kind, prop, obligation, text string
}

func loadFindings(path string) []finding {
	data, err := os.ReadFile(path)
	if err != nil {
		return nil
	}
	var out []finding
	for _, l := range strings.Split(string(data), "\n") {
		l = strings.TrimSpace(l)
		if l == "" || strings.HasPrefix(l, "#") {
			continue
		}
		var f finding
		switch {
		case strings.HasPrefix(l, "finding:"):
			f.kind = "finding"
			l = strings.TrimSpace(l[len("finding:"):])
		case strings.HasPrefix(l, "fixed:"):
			f.kind = "fixed"
			l = strings.TrimSpace(l[len("fixed:"):])
		default:
			continue
		}
		for _, w := range strings.Fields(l) {
			if strings.HasPrefix(w, "property=") && f.prop == "" {
				f.prop = w[len("property="):]
			} else if strings.HasPrefix(w, "obligation=") && f.obligation == "" {
				f.obligation = w[len("obligation="):]
			}
		}
		f.text = l
		out = append(out, f)
	}
	return out
}

func hasProp(props []string, p string) bool {
	for _, x := range props {
		if x == p {
			return true
		}
	}
	return false
}

func (r *Report) finish(workdir string) int {
	if r.Unknown == nil {
		r.Unknown = map[string]bool{}
	}
	prop := r.Prop
	// aggregate by obligation name
	obl := map[string]*Oblig{}
	var order []string
	covers := map[string][]string{} // fn -> statuses of exit covers
	preCover := map[string]string{}
	callCov := map[string]map[string]string{}
	engineErr := false
	for _, cr := range r.Results {
		ck := cr.Check
		if cr.Status == "engine-error" {
			engineErr = true
			fmt.Printf("ENGINE-ERROR %s: %s\n", ck.Name, cr.Output)
		}
		if ck.ExpectSat && strings.Contains(ck.Name, "cover#call") {
			i := strings.Index(ck.Name, "cover#call")
			rest := ck.Name[i+len("cover#call"):]
			kind := rest[:strings.Index(rest, ":")]
			key := ck.Fn + "|" + rest[strings.Index(rest, ":")+1:] + "|" + ck.Path
			if callCov[key] == nil {
				callCov[key] = map[string]string{}
			}
			callCov[key][kind] = cr.Status
			continue
		}
		if ck.ExpectSat {
			if strings.HasSuffix(ck.Name, "cover#pre") {
				if cr.Status == "vacuous" {
					preCover[ck.Fn] = "vacuous"
				} else if preCover[ck.Fn] == "" {
					preCover[ck.Fn] = "ok"
				}
			} else {
				covers[ck.Fn] = append(covers[ck.Fn], cr.Status)
			}
			continue
		}
		if prop != "" && !hasProp(ck.Props, prop) {
			continue
		}
		o := obl[ck.Name]
		if o == nil {
			o = &Oblig{Name: ck.Name, Class: ck.Class, Props: ck.Props, Status: "discharged", Info: ck.Info, Src: ck.Src}
			obl[ck.Name] = o
			order = append(order, ck.Name)
		}
		o.Instances++
		o.Secs += cr.Secs
		switch cr.Status {
		case "discharged", "trivial":
			if o.Solver == "" || cr.Status == "discharged" {
				o.Solver = cr.Solver
			}
		case "failed":
			o.Status = "failed"
			if o.fail == nil || o.fail.Status != "failed" {
				o.fail = cr
			}
		default:
			if o.Status != "failed" {
				o.Status = "unknown"
				if o.fail == nil {
					o.fail = cr
				}
			}
		}
	}
	sort.Strings(order)
	findings := loadFindings(filepath.Join(*flagVerif, "known-findings.txt"))
	known := map[string]finding{}
	for _, f := range findings {
		if f.kind == "finding" {
			known[f.obligation] = f
		}
	}
	exit := 0
	violations := 0
	var knownHit []string
	replayDir := filepath.Join(*flagVerif, "replay")
	if *flagReplayDir != "" {
		replayDir = *flagReplayDir
	}
	// vacuity
	vacuous := []string{}
	failedFn := map[string]bool{}
	for _, cr := range r.Results {
		if !cr.Check.ExpectSat && cr.Status != "discharged" && cr.Status != "trivial" {
			failedFn[cr.Check.Fn] = true
		}
	}
	for _, fi := range r.Funcs {
		if failedFn[fi.Key] {
			continue // a failed goal is assumed afterwards; covers below it mean nothing
		}
		if preCover[fi.Key] == "vacuous" {
			vacuous = append(vacuous, fi.Key+": contradictory requires")
		}
		cs := covers[fi.Key]
		if fi.ExitPaths > 0 && len(cs) > 0 {
			any := false
			for _, s := range cs {
				if s != "vacuous" {
					any = true
				}
			}
			if !any {
				vacuous = append(vacuous, fi.Key+": no feasible path reaches an exit")
			}
		}
		if fi.Paths == 0 {
			vacuous = append(vacuous, fi.Key+": no paths generated")
		}
	}
	// contract consistency at call sites: a state that was satisfiable before a
	// contract was applied must not become unsatisfiable by its postconditions
	nCallCov := 0
	{
		var keys []string
		for k := range callCov {
			keys = append(keys, k)
		}
		sort.Strings(keys)
		seen := map[string]bool{}
		for _, k := range keys {
			m := callCov[k]
			nCallCov++
			parts := strings.SplitN(k, "|", 3)
			if failedFn[parts[0]] {
				continue
			}
			if pre, post := m["pre"], m["post"]; pre != "" && pre != "vacuous" && post == "vacuous" {
				msg := parts[0] + ": the contract applied at call " + parts[1] + " contradicts the caller's state (postconditions unsatisfiable)"
				if !seen[msg] {
					seen[msg] = true
					vacuous = append(vacuous, msg)
				}
			}
		}
	}
	r.CallCovers = nCallCov
	nObl, nDis := 0, 0
	var solverTime float64
	bySolver := map[string]int{}
	var oblist []*Oblig
	var undecided []string
	for _, name := range order {
		o := obl[name]
		oblist = append(oblist, o)
		nObl++
		solverTime += o.Secs
		if o.Status == "discharged" {
			nDis++
			bySolver[o.Solver]++
			continue
		}
		// failed or unknown
		if f, ok := known[name]; ok && (prop == "" || f.prop == prop) {
			knownHit = append(knownHit, name)
			fmt.Printf("KNOWN-FINDING: property=%s %s\n", f.prop, f.text)
			continue
		}
		for _, p := range o.Props {
			if prop != "" && p != prop {
				continue
			}
			suffix := ""
			if o.fail == nil || !o.fail.replayed() {
				suffix = " no-failing-input-found"
			}
			path := writeReplay(replayDir, p, o)
			fmt.Printf("VIOLATION property=%s replay=%s%s\n", p, path, suffix)
			fmt.Printf("  obligation %s [%s] %s: %s (%s)\n", o.Name, o.Status, o.Src, o.Info, solverOf(o))
			violations++
			exit = 1
		}
		undecided = append(undecided, name)
	}
	// contracts that no longer bind to a function, and engine errors, make the
	// obligations they carried undecidable: report them for their properties
	for _, m := range r.Missing {
		for _, p := range m.Props {
			if prop != "" && p != prop {
				continue
			}
			o := &Oblig{Name: m.Key + "/bind", Class: "bind", Status: "unknown", Info: "contract at " + m.File + " names a function that does not exist in the current tree"}
			path := writeReplay(replayDir, p, o)
			fmt.Printf("VIOLATION property=%s replay=%s no-failing-input-found\n", p, path)
			fmt.Printf("  %s: %s\n", m.Key, o.Info)
			violations++
			exit = 1
		}
	}
	seenErr := map[string]bool{}
	for _, e := range r.EngineErrors {
		if seenErr[e.Fn+"|"+e.Msg] {
			continue
		}
		seenErr[e.Fn+"|"+e.Msg] = true
		for _, p := range e.Props {
			if prop != "" && p != prop {
				continue
			}
			o := &Oblig{Name: e.Fn + "/contract", Class: "bind", Status: "unknown", Info: "contract could not be evaluated against the current code: " + e.Msg}
			path := writeReplay(replayDir, p, o)
			fmt.Printf("VIOLATION property=%s replay=%s no-failing-input-found\n", p, path)
			fmt.Printf("  %s: %s\n", e.Fn, e.Msg)
			violations++
			exit = 1
		}
		if len(e.Props) == 0 {
			fmt.Printf("ENGINE-ERROR %s: %s\n", e.Fn, e.Msg)
			engineErr = true
		}
	}
	if len(vacuous) > 0 {
		for _, v := range vacuous {
			fmt.Printf("ENGINE-ERROR vacuity: %s\n", v)
		}
		engineErr = true
	}
	if nObl == 0 && exit == 0 {
		fmt.Printf("ENGINE-ERROR no obligations generated for property %q\n", prop)
		engineErr = true
	}
	wall := time.Since(r.Start).Seconds()
	fmt.Printf("govc: property=%s tier=%s functions=%d paths=%d obligations=%d discharged=%d known-findings=%d violations=%d load=%.1fs gen=%.1fs solve=%.1fs wall=%.1fs\n",
		prop, r.Tier, len(r.Funcs), len(r.pathsTotal()), nObl, nDis, len(knownHit), violations, r.LoadSecs, r.GenSecs, r.SolveSecs, wall)
	if *flagVerbose {
		for _, o := range oblist {
			fmt.Printf("  %-12s %-9s %6.2fs %-10s %s  -- %s\n", o.Status, o.Class, o.Secs, o.Solver, o.Name, o.Info)
		}
	}
	if !*flagNoEvid && prop != "" {
		r.writeEvidence(oblist, nObl, nDis, knownHit, violations, solverTime, bySolver, wall, undecided)
	}
	if engineErr && exit == 0 {
		return 3
	}
	return exit
}

func solverOf(o *Oblig) string {
	if o.fail != nil {
		return o.fail.Solver
	}
	return o.Solver
}

// replayed: the solver's counterexample was run against the real code of the
// tree under check and reproduced the violation (see replay.go).
func (cr *CheckResult) replayed() bool {
	if cr == nil {
		return false
	}
	if !cr.replayDone {
		cr.replayDone = true
		if os.Getenv("GOVC_NO_REPLAY") == "" {
			cr.replayOK, cr.replayRec = tryReplay(cr, *flagRepo)
		}
	}
	return cr.replayOK
}

func (r *Report) pathsTotal() []int {
	var n []int
	for _, f := range r.Funcs {
		for i := 0; i < f.Paths; i++ {
			n = append(n, 1)
		}
	}
	return n
}

func sanitize(s string) string {
	var sb strings.Builder
	for _, c := range s {
		switch {
		case c >= 'a' && c <= 'z', c >= 'A' && c <= 'Z', c >= '0' && c <= '9', c == '.', c == '-', c == '_':
			sb.WriteRune(c)
		default:
			sb.WriteRune('_')
		}
	}
	out := sb.String()
	if len(out) > 150 {
		out = out[len(out)-150:]
	}
	return out
}

// writeReplay records a failed or undecided obligation: name, clause, the
// solver's verdict/model and the SMT query.
func writeReplay(dir, prop string, o *Oblig) string {
	d := filepath.Join(dir, prop)
	os.MkdirAll(d, 0755)
	path := filepath.Join(d, sanitize(o.Name)+".json")
	rec := map[string]interface{}{
		"property":   prop,
		"obligation": o.Name,
		"class":      o.Class,
		"status":     o.Status,
		"clause":     o.Info,
		"source":     o.Src,
	}
	if o.fail != nil {
		rec["solver"] = o.fail.Solver
		rec["solver_output"] = o.fail.Output
		rec["model"] = o.fail.Model
		rec["path"] = o.fail.Check.Path
		if o.fail.Query != "" {
			if q, err := os.ReadFile(o.fail.Query); err == nil {
				qp := strings.TrimSuffix(path, ".json") + ".smt2"
				os.WriteFile(qp, q, 0644)
				rec["query_file"] = qp
			}
		}
		if o.fail.Status == "failed" {
			rec["verdict"] = "the solver found a model of the negated obligation (counterexample at the level of the function's symbolic inputs and callee results)"
		} else {
			rec["verdict"] = "no solver could discharge the obligation within the timeout; it was dischargeable on the unchanged tree"
		}
	}
	rec["replayed_on_real_code"] = false
	if o.fail != nil && o.fail.replayDone {
		rec["replayed_on_real_code"] = o.fail.replayOK
		for k, v := range o.fail.replayRec {
			rec[k] = v
		}
	}
	b, _ := json.MarshalIndent(rec, "", " ")
	os.WriteFile(path, b, 0644)
	return path
}

func (r *Report) writeEvidence(oblist []*Oblig, nObl, nDis int, knownHit []string, violations int, solverTime float64, bySolver map[string]int, wall float64, undecided []string) {
	seed := 0
	if s := os.Getenv("VERIF_SEED"); s != "" {
		seed, _ = strconv.Atoi(s)
	}
	var samples []interface{}
	for i, o := range oblist {
		if i%((len(oblist)/3)+1) == 0 && len(samples) < 4 {
			samples = append(samples, map[string]interface{}{"obligation": o.Name, "class": o.Class, "clause": o.Info, "status": o.Status, "solver": o.Solver, "source": o.Src})
		}
	}
	var trusted []string
	for k := range r.UsedContracts {
		if strings.HasPrefix(k, "assumed contract: ") {
			trusted = append(trusted, k)
		}
	}
	sort.Strings(trusted)
	trusted = append(trusted, "library models written in Go inside govc: errors.New, fmt.Errorf (%w-aware), errors.Is, fmt.Fprintf (%s-aware), builtins append/copy/len/cap")
	trusted = append(trusted, "theory axioms of /verif/contracts/lib/00_theory.spec (functional laws of AEAD, X25519, base64, HKDF/scrypt/HMAC as uninterpreted functions; wrapcols/sjoin definitions)")
	trusted = append(trusted, "SMT solvers z3 5.1.0, z3 4.8.12, cvc5 1.0.3", "go/packages + go/ssa (x/tools v0.29.0) as the extraction of /repo's source", "govc's own symbolic executor and memory model (see DESIGN.md section 2)")
	var unk []string
	for u := range r.Unknown {
		unk = append(unk, u)
	}
	sort.Strings(unk)
	var notes []string
	for n := range r.Notes {
		notes = append(notes, n)
	}
	sort.Strings(notes)
	assumptions := []string{
		"integers are mathematical with range facts as type invariants; every signed + - * carries an overflow obligation, unsigned arithmetic wraps explicitly",
		"slice lengths and capacities are at most 2^56",
		"library functions obey the assumed contracts listed in trusted_base; external callees without a contract havoc all memory except unexported fields of this module's types (assumption A-reenter)",
		"cryptographic primitives are axiomatised by their functional laws only; no security property is assumed as an axiom",
		"package-level error sentinels are never reassigned",
	}
	for _, u := range unk {
		assumptions = append(assumptions, "external callee without contract (results and reachable memory arbitrary): "+u)
	}
	for k, c := range r.DB.Contracts {
		if c.Trusted {
			continue
		}
		if c.HasMod && c.FrameAssumed != "" {
			assumptions = append(assumptions, "modifies clause of "+k+" is declared but NOT checked against the body (frame assumed: "+c.FrameAssumed+")")
		}
		if c.NoSafety {
			assumptions = append(assumptions, "run-time safety (bounds, nil, overflow) of "+k+" is not checked (nosafety)")
		}
		if c.NoReturn {
			assumptions = append(assumptions, "callers of "+k+" rely on it never returning (checked against its body: post#noreturn)")
		}
		for _, e := range c.Ensures {
			if e.Kind == "assumes" {
				assumptions = append(assumptions, "ASSUMED (not checked against the body) postcondition of "+k+": "+e.Text)
			}
		}
	}
	for _, gi := range r.DB.GlobalInits {
		if gi.IsSplit && (r.Prop == "" || hasProp(gi.Props, r.Prop)) {
			assumptions = append(assumptions, "length of "+gi.Name+" is recounted from the constant in its initialiser as strings.Count(s, sep)+1, the documented result length of strings.Split for a non-empty separator (library behaviour, trusted); element contents are not constrained")
		}
	}
	sort.Strings(assumptions)
	ev := map[string]interface{}{
		"property_id": r.Prop,
		"tier":        r.Tier,
		"seed":        seed,
		"level":       "proof",
		"wall_s":      wall,
		"violations":  violations,
		"assumptions": assumptions,
		"coverage": map[string]interface{}{
			"obligations":              nObl,
			"discharged":               nDis + len(knownHit),
			"discharged_by_solver":     nDis,
			"known_findings":           knownHit,
			"undecided":                undecided,
			"checker_cmd":              "/verif/bin/govc -prop " + r.Prop + " -tier " + r.Tier,
			"trusted_base":             trusted,
			"functions_under_contract": r.Funcs,
			"obligation_list":          oblist,
			"by_back_end":              bySolver,
			"solver_time_s":            solverTime,
			"vc_generation_s":          r.GenSecs,
			"load_s":                   r.LoadSecs,
			"unmodelled_notes":         notes,
			"samples":                  samples,
			"explanation":              "obligations are verification conditions generated from /repo's current source (go/ssa) against the contracts in zz_contracts_verif.go; each is an SMT query whose unsatisfiability was established by the named back end",
		},
	}
	// known findings are not discharged obligations: report honestly
	cov := ev["coverage"].(map[string]interface{})
	cov["discharged"] = nDis
	if len(knownHit) > 0 {
		cov["obligations"] = nObl - len(knownHit)
		cov["obligations_including_known_findings"] = nObl
	}
	os.MkdirAll(filepath.Join(*flagVerif, "evidence"), 0755)
	b, _ := json.MarshalIndent(ev, "", " ")
	os.WriteFile(filepath.Join(*flagVerif, "evidence", r.Prop+".json"), b, 0644)
}

var _ = fmt.Sprintf

package main

import (
	"go/token"
	"flag"
	"go/constant"
	"fmt"
	"go/types"
	"os"
	"path/filepath"
	"runtime"
	"sort"
	"strconv"
	"strings"
	"time"

	"golang.org/x/tools/go/packages"
	"golang.org/x/tools/go/ssa"
	"golang.org/x/tools/go/ssa/ssautil"
)

var (
	flagRepo    = flag.String("repo", "/repo", "repository root")
	flagVerif   = flag.String("verif", "/verif", "verification root")
	flagProp    = flag.String("prop", "", "property id to decide (e.g. C02); empty = all contracts")
	flagTier    = flag.String("tier", "quick", "quick|thorough")
	flagFn      = flag.String("fn", "", "only functions whose key contains this substring")
	flagFiles   = flag.String("files", "", "only functions defined in these source files (comma-separated path suffixes); whole-program structural checks still run. Contracts are modular, so after a change to some files only the functions in those files have different obligations")
	flagDump    = flag.String("dump", "", "directory to keep the generated SMT scripts in")
	flagVerbose = flag.Bool("v", false, "verbose")
	flagNoEvid  = flag.Bool("no-evidence", false, "do not write the evidence file")
	flagList    = flag.Bool("list", false, "list contracts and exit")
	flagReplayDir = flag.String("replaydir", "", "directory for replay files (default <verif>/replay)")
	flagTimeout = flag.Int("timeout", 0, "per-obligation solver timeout in ms (default: 10000 quick, 60000 thorough)")
)

// per-function budgets on the generated verification conditions (the largest
// function of the unchanged tree is far below both)
const maxChecksPerFunc = 20000
const maxVCBytesPerFunc = 4 << 30

func main() {
	flag.Parse()
	os.Exit(run())
}

type Loaded struct {
	prog  *ssa.Program
	pkgs  []*packages.Package
	spkgs []*ssa.Package
	db    *SpecDB
}

func load() (*Loaded, error) {
	cfg := &packages.Config{Mode: packages.LoadAllSyntax, Dir: *flagRepo, BuildFlags: []string{"-tags=verif"},
		Env: append(os.Environ(), "GOFLAGS=-mod=mod", "GOPROXY=off", "GOSUMDB=off", "GOTOOLCHAIN=local")}
	pkgs, err := packages.Load(cfg, "./...")
	if err != nil {
		return nil, err
	}
	nerr := 0
	for _, p := range pkgs {
		for _, e := range p.Errors {
			fmt.Fprintf(os.Stderr, "load error: %v\n", e)
			nerr++
		}
	}
	if nerr > 0 {
		return nil, fmt.Errorf("%d package load errors", nerr)
	}
	prog, spkgs := ssautil.AllPackages(pkgs, ssa.NaiveForm)
	prog.Build()
	l := &Loaded{prog: prog, pkgs: pkgs, spkgs: spkgs, db: NewSpecDB()}
	// index functions, struct aliases, field heaps
	for fn := range ssautil.AllFunctions(prog) {
		funcIndex[fn.String()] = fn
	}
	for fn := range ssautil.AllFunctions(prog) {
		if !inRepo(fn) {
			continue
		}
		for _, b := range fn.Blocks {
			for _, ins := range b.Instrs {
				if ct, ok := ins.(*ssa.ChangeType); ok {
					a, aok := derefPtr(ct.X.Type())
					b2, bok := derefPtr(ct.Type())
					if aok && bok {
						_, as := a.Underlying().(*types.Struct)
						_, bs := b2.Underlying().(*types.Struct)
						if as && bs {
							unionStructs(a, b2)
						}
					}
				}
			}
		}
	}
	for _, p := range pkgs {
		if !strings.HasPrefix(p.PkgPath, repoPrefix) {
			continue
		}
		sc := p.Types.Scope()
		for _, n := range sc.Names() {
			if tn, ok := sc.Lookup(n).(*types.TypeName); ok {
				if s, ok := tn.Type().Underlying().(*types.Struct); ok {
					for i := 0; i < s.NumFields(); i++ {
						f := s.Field(i)
						switch f.Type().Underlying().(type) {
						case *types.Array, *types.Struct:
						default:
							allFieldHeaps[fieldHeapName(tn.Type(), f)] = ArraySort(sortOf(f.Type()))
						}
					}
				}
			}
		}
	}
	// contracts: library first, then in-repo files
	libs, _ := filepath.Glob(filepath.Join(*flagVerif, "contracts", "lib", "*.spec"))
	sort.Strings(libs)
	for _, f := range libs {
		if err := l.db.LoadSpecFile(f, "", true); err != nil {
			return nil, err
		}
	}
	for _, p := range pkgs {
		if !strings.HasPrefix(p.PkgPath, repoPrefix) {
			continue
		}
		for _, gf := range p.GoFiles {
			if base := filepath.Base(gf); strings.HasPrefix(base, "zz_") && strings.HasSuffix(base, "_verif.go") {
				if err := l.db.LoadSpecFile(gf, p.PkgPath, false); err != nil {
					return nil, err
				}
			}
		}
	}
	return l, nil
}

func run() int {
	t0 := time.Now()
	l, err := load()
	if err != nil {
		fmt.Fprintf(os.Stderr, "govc: %v\n", err)
		return 3
	}
	loadSecs := time.Since(t0).Seconds()
	db := l.db
	var keys []string
	for k, c := range db.Contracts {
		if c.Trusted {
			continue
		}
		keys = append(keys, k)
	}
	sort.Strings(keys)
	if *flagList {
		for _, k := range keys {
			c := db.Contracts[k]
			fmt.Printf("%-70s props=%v requires=%d ensures=%d loops=%d\n", k, c.propList(), len(c.Requires), len(c.Ensures), len(c.Loops))
		}
		return 0
	}
	prop := *flagProp
	tier := *flagTier
	if t := os.Getenv("VERIF_TIER"); t != "" && tier == "quick" {
		tier = t
	}
	timeout := *flagTimeout
	if timeout == 0 {
		timeout = 10000
		if tier == "thorough" {
			timeout = 60000
		}
	}
	workdir, err := os.MkdirTemp("", "govc-")
	if err != nil {
		fmt.Fprintln(os.Stderr, err)
		return 3
	}
	if *flagDump != "" {
		os.MkdirAll(*flagDump, 0755)
		workdir = *flagDump
	} else {
		defer os.RemoveAll(workdir)
	}

	rep := &Report{Prop: prop, Tier: tier, DB: db, Start: t0, LoadSecs: loadSecs, Unknown: map[string]bool{}, Notes: map[string]bool{}, UsedContracts: map[string]bool{}}
	var allPaths []*PathResult
	genStart := time.Now()
	// functions in scope: those with a clause tagged for the property, plus
	// (transitively) every in-module function whose contract their proofs use,
	// so that the untagged (structural) clauses relied upon are checked too
	var work []string
	queued := map[string]bool{}
	for _, k := range keys {
		c := db.Contracts[k]
		if *flagFn != "" && !strings.Contains(k, *flagFn) {
			continue
		}
		if prop != "" && !c.Props[prop] && !(prop == "C14" && !c.NoSafety) {
			continue
		}
		work = append(work, k)
		queued[k] = true
	}
	for len(work) > 0 {
		k := work[0]
		work = work[1:]
		c := db.Contracts[k]
		fn := funcIndex[k]
		if (fn == nil && len(c.SpecVars) > 0 || strings.Contains(k, ".speclemma.")) && *flagFiles != "" {
			continue
		}
		if fn == nil && len(c.SpecVars) > 0 || strings.Contains(k, ".speclemma.") {
			// statement-level lemma: no code
			pkgPath := k[:strings.Index(k, ".speclemma.")]
			var anyFn *ssa.Function
			var tpkg *types.Package
			for _, sp := range l.prog.AllPackages() {
				if sp.Pkg.Path() == pkgPath {
					tpkg = sp.Pkg
					anyFn = sp.Func("init")
				}
			}
			ex := &Exec{prog: l.prog, db: db, fset: l.prog.Fset, maxPaths: 10, loopCache: map[*ssa.Function]*LoopInfo{}, usedUnknown: map[string]bool{}, usedContracts: map[string]bool{}, prop: prop, siteOrd: map[*ssa.Function]map[ssa.Instruction]int{}, trackCache: map[*Contract]map[string]bool{}}
			curLemmaKey = k
			ex.verifySpecLemma(c, tpkg, anyFn)
			curLemmaKey = ""
			rep.Funcs = append(rep.Funcs, FuncInfo{Key: k, Paths: len(ex.paths), Mode: c.Mode, Lemma: true, ExitPaths: ex.exitPaths})
			for _, e := range ex.errors {
				rep.EngineErrors = append(rep.EngineErrors, EngineErr{Fn: k, Msg: e, Props: c.propList()})
			}
			for _, p := range ex.paths {
				p.Fn = k
			}
			allPaths = append(allPaths, ex.paths...)
			continue
		}
		if fn == nil {
			rep.Missing = append(rep.Missing, MissingFn{Key: k, Props: c.propList(), File: c.File})
			continue
		}
		if *flagFiles != "" {
			in := false
			fname := l.prog.Fset.Position(fn.Pos()).Filename
			for _, suf := range strings.Split(*flagFiles, ",") {
				if suf = strings.TrimSpace(suf); suf != "" && strings.HasSuffix(fname, suf) {
					in = true
				}
			}
			if !in {
				continue
			}
		}
		ex := &Exec{callCovers: tier == "thorough" || os.Getenv("GOVC_CALL_COVERS") != "", prog: l.prog, db: db, fset: l.prog.Fset, maxPaths: 4000, loopCache: map[*ssa.Function]*LoopInfo{}, usedUnknown: map[string]bool{}, usedContracts: map[string]bool{}, prop: prop, siteOrd: map[*ssa.Function]map[ssa.Instruction]int{}, trackCache: map[*Contract]map[string]bool{}}
		if c.PathCap > 0 {
			ex.maxPaths = c.PathCap
		}
		ex.verifyFunc(fn, c)
		rep.Funcs = append(rep.Funcs, FuncInfo{Key: k, Paths: len(ex.paths), Mode: "int", Lemma: c.Lemma, ExitPaths: ex.exitPaths})
		for _, e := range ex.errors {
			ps := c.propList()
			if prop != "" {
				ps = []string{prop}
			}
			rep.EngineErrors = append(rep.EngineErrors, EngineErr{Fn: k, Msg: e, Props: ps})
		}
		for u := range ex.usedUnknown {
			rep.Unknown[u] = true
		}
		for u := range ex.usedContracts {
			rep.UsedContracts[u] = true
		}
		for _, p := range ex.paths {
			for _, n := range p.Notes {
				rep.Notes[k+": "+n] = true
			}
		}
		if !ex.aborted {
			// VC volume budget: a mutated body can explore quickly and still
			// produce hundreds of thousands of large queries
			nchecks, nbytes := 0, 0
			for _, p := range ex.paths {
				sz := 0
				for _, cmd := range p.Script {
					sz += len(cmd.Text)
					if cmd.Check != nil {
						nchecks++
						nbytes += sz
					}
				}
			}
			if nchecks > maxChecksPerFunc || nbytes > maxVCBytesPerFunc {
				ex.aborted = true
				ps := c.propList()
				if prop != "" {
					ps = []string{prop}
				}
				rep.EngineErrors = append(rep.EngineErrors, EngineErr{Fn: k, Msg: fmt.Sprintf("%s: verification-condition volume budget exceeded (%d obligations instances, %d MB of queries; a loop needs an invariant?)", k, nchecks, nbytes>>20), Props: ps})
			}
		}
		if ex.aborted {
			// exploration given up (reported as an engine error = undecided):
			// do not spend solver time on a partial path set
			ex.paths = nil
		}
		allPaths = append(allPaths, ex.paths...)
		if false {
			for u := range ex.usedContracts {
				if !queued[u] {
					if cc := db.Contracts[u]; cc != nil && !cc.Trusted {
						queued[u] = true
						work = append(work, u)
					}
				}
			}
		}
	}
	// C20: no package-level variable of the library packages is written
	// outside package initialisation (per-call state only)
	if (prop == "" || prop == "C20") && *flagFn == "" {
		for _, sp := range l.spkgs {
			if sp == nil || !strings.HasPrefix(sp.Pkg.Path(), repoPrefix) || strings.Contains(sp.Pkg.Path(), "/cmd/") {
				continue
			}
			var writes []string
			for fn := range ssautil.AllFunctions(l.prog) {
				if fn.Pkg != sp && !(fn.Parent() != nil && fn.Parent().Pkg == sp) {
					continue
				}
				if fn.Name() == "init" || strings.HasPrefix(fn.Name(), "init#") {
					continue
				}
				if fn.Syntax() != nil {
					if pos := l.prog.Fset.Position(fn.Pos()); strings.HasSuffix(pos.Filename, "_test.go") {
						continue
					}
				}
				for _, b := range fn.Blocks {
					for _, ins := range b.Instrs {
						if st, ok := ins.(*ssa.Store); ok {
							if g, ok := st.Addr.(*ssa.Global); ok {
								writes = append(writes, fn.String()+" writes "+g.Name())
							}
							continue
						}
						// the ADDRESS of a package-level variable used for anything
						// but reading it (a method call on it, a field/element
						// address, passing it on) makes it shared mutable state
						// (sync.Pool, caches, scratch buffers)
						if u, ok := ins.(*ssa.UnOp); ok && u.Op == token.MUL {
							continue
						}
						// an update of a map held in a package-level variable
						if mu, ok := ins.(*ssa.MapUpdate); ok {
							if ld, ok := mu.Map.(*ssa.UnOp); ok && ld.Op == token.MUL {
								if g, ok := ld.X.(*ssa.Global); ok && g.Pkg == sp {
									writes = append(writes, fn.String()+" updates the map "+g.Name())
								}
							}
						}
						for _, op := range ins.Operands(nil) {
							if op == nil || *op == nil {
								continue
							}
							if g, ok := (*op).(*ssa.Global); ok && g.Pkg == sp {
								writes = append(writes, fn.String()+" takes the address of "+g.Name())
							}
						}
					}
				}
			}
			sort.Strings(writes)
			ck := &Check{Name: sp.Pkg.Path() + "/globals#readonly", Class: "frame", Fn: sp.Pkg.Path(), Props: []string{"C20"},
				Info: "no function of the package assigns a package-level variable outside init, or uses the address of one for anything but reading it", Goal: "false"}
			st := "trivial"
			ck.Trivial = true
			out := ""
			if len(writes) > 0 {
				st = "failed"
				ck.Trivial = false
				out = strings.Join(writes, "; ")
			}
			rep.Extra = append(rep.Extra, &CheckResult{Check: ck, Status: st, Solver: "ssa-scan", Output: out, Model: out})
		}
	}
	// complete method sets of types whose callers dispatch on optional interfaces
	for _, ms := range db.MethodSets {
		if prop != "" && !hasProp(ms.Props, prop) {
			continue
		}
		if *flagFn != "" {
			continue
		}
		var got []string
		found := false
		for _, sp := range l.spkgs {
			if sp == nil || sp.Pkg.Path() != ms.Pkg {
				continue
			}
			if obj := sp.Pkg.Scope().Lookup(ms.Type); obj != nil {
				found = true
				mset := types.NewMethodSet(types.NewPointer(obj.Type()))
				for i := 0; i < mset.Len(); i++ {
					got = append(got, mset.At(i).Obj().Name())
				}
			}
		}
		sort.Strings(got)
		ck := &Check{Name: ms.Pkg + ".(*" + ms.Type + ")/methods#exact", Class: "structure", Fn: ms.Pkg + "." + ms.Type, Props: ms.Props,
			Info: "the method set of *" + ms.Type + " is exactly {" + strings.Join(ms.Methods, ", ") + "}", Src: ms.Src, Goal: "false"}
		st := "failed"
		out := "method set in the current tree: {" + strings.Join(got, ", ") + "}"
		if found && strings.Join(got, ",") == strings.Join(ms.Methods, ",") {
			st = "trivial"
			ck.Trivial = true
			out = ""
		}
		rep.Extra = append(rep.Extra, &CheckResult{Check: ck, Status: st, Solver: "type-check", Output: out, Model: out})
	}
	// call-graph census: who may call a function (e.g. the plugin constructors)
	for _, cd := range db.CallerDecls {
		if prop != "" && !hasProp(cd.Props, prop) {
			continue
		}
		if *flagFn != "" {
			continue
		}
		gotSet := map[string]bool{}
		calleeSeen := false
		for fn := range ssautil.AllFunctions(l.prog) {
			if fn.String() == cd.Callee {
				calleeSeen = true
			}
			top := fn
			for top.Parent() != nil {
				top = top.Parent()
			}
			if top.Pkg == nil || !strings.HasPrefix(top.Pkg.Pkg.Path(), repoPrefix) || fn.Synthetic != "" {
				continue
			}
			if pos := l.prog.Fset.Position(fn.Pos()); strings.HasSuffix(pos.Filename, "_test.go") {
				continue
			}
			for _, b := range fn.Blocks {
				for _, ins := range b.Instrs {
					var cc *ssa.CallCommon
					switch x := ins.(type) {
					case *ssa.Call:
						cc = &x.Call
					case *ssa.Defer:
						cc = &x.Call
					case *ssa.Go:
						cc = &x.Call
					}
					if cc != nil {
						if sc := cc.StaticCallee(); sc != nil && sc.String() == cd.Callee {
							gotSet[top.String()] = true
						}
					}
					// the function used as a value (method value, closure argument) counts too
					for _, op := range ins.Operands(nil) {
						if op == nil || *op == nil {
							continue
						}
						if f, ok := (*op).(*ssa.Function); ok && f.String() == cd.Callee {
							if cc == nil || cc.StaticCallee() != f {
								gotSet[top.String()] = true
							}
						}
					}
				}
			}
		}
		got := sortedKeys(gotSet)
		ck := &Check{Name: cd.Callee + "/callers#exact", Class: "structure", Fn: cd.Callee, Props: cd.Props,
			Info: "the functions of this module that call " + cd.Callee + " are exactly {" + strings.Join(cd.Callers, ", ") + "}", Src: cd.Src, Goal: "false"}
		st := "failed"
		out := "callers in the current tree: {" + strings.Join(got, ", ") + "}"
		if calleeSeen && strings.Join(got, ",") == strings.Join(cd.Callers, ",") {
			st = "trivial"
			ck.Trivial = true
			out = ""
		}
		rep.Extra = append(rep.Extra, &CheckResult{Check: ck, Status: st, Solver: "ssa-scan", Output: out, Model: out})
	}
	// package-level initialisers pinned to literals
	for _, gi := range db.GlobalInits {
		if prop != "" && !hasProp(gi.Props, prop) {
			continue
		}
		if *flagFn != "" {
			continue
		}
		got, ok := globalInitLiteral(l.prog, gi.Name)
		want := gi.Lit
		if gi.IsInts {
			got, ok = globalInitInts(l.prog, gi.Name)
			want = strings.Join(gi.Ints, ",")
		}
		info := fmt.Sprintf("package initialiser assigns the literal %q", want)
		if gi.IsSplit {
			got, ok = globalInitSplit(l.prog, gi.Name, gi.SplitSep)
			want = strconv.Itoa(gi.SplitN)
			info = fmt.Sprintf("package initialiser assigns strings.Split(<constant>, %q) with %s elements; the variable is only ever loaded elsewhere", gi.SplitSep, want)
		}
		ck := &Check{Name: gi.Name + "/init#literal", Class: "init", Fn: gi.Name, Props: gi.Props,
			Info: info, Src: gi.Src, Goal: "false"}
		st := "failed"
		if ok && got == want {
			st = "trivial"
			ck.Trivial = true
		}
		out := fmt.Sprintf("initialiser literal found: %q (found=%v)", got, ok)
		rep.Extra = append(rep.Extra, &CheckResult{Check: ck, Status: st, Solver: "ssa-scan", Output: out, Model: out})
	}
	rep.GenSecs = time.Since(genStart).Seconds()
	scfg := solveCfg{dir: workdir, timeoutMs: timeout, workers: runtime.NumCPU(), cross: tier == "thorough", prelude: db.prelude()}
	solveStart := time.Now()
	rep.Results = append(solveAll(allPaths, scfg), rep.Extra...)
	rep.SolveSecs = time.Since(solveStart).Seconds()
	return rep.finish(workdir)
}

var _ = strconv.Itoa

// globalInitLiteral finds the string constant a package-level variable is
// initialised from: X = "lit", X = []byte("lit"), X = f("lit") (e.g. regexp.MustCompile).
func globalInitLiteral(prog *ssa.Program, qname string) (string, bool) {
	i := strings.LastIndex(qname, ".")
	if i < 0 {
		return "", false
	}
	pkgPath, name := qname[:i], qname[i+1:]
	for _, p := range prog.AllPackages() {
		if p.Pkg.Path() != pkgPath {
			continue
		}
		g, ok := p.Members[name].(*ssa.Global)
		if !ok {
			return "", false
		}
		init := p.Func("init")
		if init == nil {
			return "", false
		}
		found := ""
		n := 0
		for _, b := range init.Blocks {
			for _, ins := range b.Instrs {
				st, ok := ins.(*ssa.Store)
				if !ok || st.Addr != g {
					continue
				}
				n++
				if s, ok := constStringOf(st.Val, 0); ok {
					found = s
				} else {
					return "", false
				}
			}
		}
		// no other function may assign it
		for fn := range ssautil.AllFunctions(prog) {
			if fn == init || fn.Pkg != p {
				continue
			}
			for _, b := range fn.Blocks {
				for _, ins := range b.Instrs {
					if st, ok := ins.(*ssa.Store); ok && st.Addr == g {
						return "", false
					}
				}
			}
		}
		return found, n == 1
	}
	return "", false
}

func constStringOf(v ssa.Value, depth int) (string, bool) {
	if depth > 4 {
		return "", false
	}
	switch x := v.(type) {
	case *ssa.Const:
		if x.Value != nil && x.Value.Kind() == constant.String {
			return constant.StringVal(x.Value), true
		}
	case *ssa.Convert:
		return constStringOf(x.X, depth+1)
	case *ssa.Call:
		if len(x.Call.Args) == 1 {
			return constStringOf(x.Call.Args[0], depth+1)
		}
	case *ssa.Slice:
		return constStringOf(x.X, depth+1)
	}
	return "", false
}

// globalInitSplit: X = strings.Split("<const>", "<sep>") is the only store to X in
// init, and everywhere else in the package X is only loaded (never stored to, never
// has its address passed on). Returns the number of elements strings.Split yields
// for a non-empty separator: Count(s, sep) + 1 (the documented library behaviour,
// trusted as a library contract).
func globalInitSplit(prog *ssa.Program, qname, sep string) (string, bool) {
	i := strings.LastIndex(qname, ".")
	if i < 0 {
		return "", false
	}
	pkgPath, name := qname[:i], qname[i+1:]
	for _, p := range prog.AllPackages() {
		if p.Pkg.Path() != pkgPath {
			continue
		}
		g, ok := p.Members[name].(*ssa.Global)
		if !ok {
			return "", false
		}
		init := p.Func("init")
		if init == nil {
			return "", false
		}
		count, stores := -1, 0
		for fn := range ssautil.AllFunctions(prog) {
			if fn.Pkg != p {
				continue
			}
			for _, b := range fn.Blocks {
				for _, ins := range b.Instrs {
					uses := false
					for _, op := range ins.Operands(nil) {
						if op != nil && *op == ssa.Value(g) {
							uses = true
						}
					}
					if !uses {
						continue
					}
					if u, ok := ins.(*ssa.UnOp); ok && u.Op == token.MUL {
						continue // a load
					}
					st, ok := ins.(*ssa.Store)
					if !ok || fn != init || st.Addr != g {
						return "address taken or stored outside init: " + fn.String(), false
					}
					stores++
					call, ok := st.Val.(*ssa.Call)
					if !ok || call.Call.StaticCallee() == nil || call.Call.StaticCallee().String() != "strings.Split" || len(call.Call.Args) != 2 {
						return "initialiser is not a call of strings.Split", false
					}
					s, ok1 := constStringOf(call.Call.Args[0], 0)
					sp, ok2 := constStringOf(call.Call.Args[1], 0)
					if !ok1 || !ok2 || sp != sep {
						return "strings.Split arguments are not the expected constants", false
					}
					count = strings.Count(s, sep) + 1
				}
			}
		}
		if stores != 1 {
			return fmt.Sprintf("%d stores in init", stores), false
		}
		return strconv.Itoa(count), true
	}
	return "", false
}

// globalInitInts: X = []T{c0, c1, ...} with integer constants; returns "c0,c1,...".
func globalInitInts(prog *ssa.Program, qname string) (string, bool) {
	i := strings.LastIndex(qname, ".")
	if i < 0 {
		return "", false
	}
	pkgPath, name := qname[:i], qname[i+1:]
	for _, p := range prog.AllPackages() {
		if p.Pkg.Path() != pkgPath {
			continue
		}
		g, ok := p.Members[name].(*ssa.Global)
		if !ok {
			return "", false
		}
		init := p.Func("init")
		if init == nil {
			return "", false
		}
		for fn := range ssautil.AllFunctions(prog) {
			if fn == init || fn.Pkg != p {
				continue
			}
			for _, b := range fn.Blocks {
				for _, ins := range b.Instrs {
					if st, ok := ins.(*ssa.Store); ok && st.Addr == g {
						return "", false
					}
				}
			}
		}
		for _, b := range init.Blocks {
			for _, ins := range b.Instrs {
				st, ok := ins.(*ssa.Store)
				if !ok || st.Addr != g {
					continue
				}
				sl, ok := st.Val.(*ssa.Slice)
				if !ok {
					return "", false
				}
				arr, ok := sl.X.(*ssa.Alloc)
				if !ok {
					return "", false
				}
				vals := map[int64]string{}
				for _, r := range *arr.Referrers() {
					ia, ok := r.(*ssa.IndexAddr)
					if !ok {
						continue
					}
					idx, ok := ia.Index.(*ssa.Const)
					if !ok {
						return "", false
					}
					for _, r2 := range *ia.Referrers() {
						if s2, ok := r2.(*ssa.Store); ok && s2.Addr == ia {
							c, ok := s2.Val.(*ssa.Const)
							if !ok || c.Value == nil {
								return "", false
							}
							vals[idx.Int64()] = c.Value.ExactString()
						}
					}
				}
				var out []string
				for k := int64(0); k < int64(len(vals)); k++ {
					v, ok := vals[k]
					if !ok {
						return "", false
					}
					out = append(out, v)
				}
				return strings.Join(out, ","), true
			}
		}
	}
	return "", false
}

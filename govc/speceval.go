package main

// Evaluation of specification expressions to SMT terms in a symbolic state.

import (
	"fmt"
	"strconv"
	"go/constant"
	"go/types"
	"math/big"
	"strings"

	"golang.org/x/tools/go/ssa"
)

type Env struct {
	ex   *Exec
	st   *State
	old  *Snapshot // state referred to by old(...)
	cur  *Snapshot // if non-nil, heap reads use this snapshot (inside old())
	vars map[string]Val
	fr   *Frame
	pkg  *types.Package
	// calleeCtx: names resolve against the callee's contract only
	calleeCtx bool
	// callerLocals: unresolved names fall back to the caller's local cells
	callerLocals bool
	// locals: invariant context; names resolve to current cell values first
	locals bool
	bound  map[string]bool
	depth  int
	// postLocals: ensures of the function under verification may name locals
	// (their values at the return), after parameters and results
	postLocals bool
	oldVars    map[string]Val // values names denote inside old(...) (captured variables of closures)
	siteFn     string // function whose call-site counters calls(...) denotes (callee contracts)
	inQuant    bool
	// loopHead: when evaluating clauses of a loop, "rangeindex" denotes that
	// loop's hidden index variable
	loopHead *ssa.BasicBlock
}

func (env *Env) with(name string, v Val) *Env {
	n := *env
	n.vars = make(map[string]Val, len(env.vars)+1)
	for k, x := range env.vars {
		n.vars[k] = x
	}
	n.vars[name] = v
	return &n
}

// invEnv: environment for loop invariants and asserts inside fr.
func (ex *Exec) invEnv(st *State, fr *Frame) *Env {
	return &Env{ex: ex, st: st, old: ex.entry, vars: map[string]Val{}, fr: fr, pkg: ex.pkgOfFrame(fr), locals: true}
}

func (ex *Exec) evalSpecBool(e SExpr, env *Env) (Term, error) {
	v, err := ex.evalSpec(e, env)
	if err != nil {
		return Term{}, err
	}
	if v.Kind != VTerm || v.T.Sort != SortBool {
		return Term{}, fmt.Errorf("expected a boolean expression, got sort %s", v.T.Sort)
	}
	return v.T, nil
}

func (ex *Exec) evalSpec(e SExpr, env *Env) (v Val, err error) {
	defer func() {
		if r := recover(); r != nil {
			if s, ok := r.(string); ok {
				err = fmt.Errorf("%s", s)
				return
			}
			panic(r)
		}
	}()
	return ex.ev(e, env), nil
}

func specFail(format string, a ...interface{}) { panic(fmt.Sprintf(format, a...)) }

func (ex *Exec) heapIn(env *Env, name, sort string) Term {
	if env.cur != nil {
		return env.st.heapAt(env.cur, name, sort)
	}
	return env.st.heap(name, sort)
}

// lookupCell finds the current value of a local variable by source name.
func (ex *Exec) lookupCell(env *Env, name string) (Val, bool) {
	if env.fr == nil {
		return Val{}, false
	}
	var best *ssa.Alloc
	if name == "rangeindex" && env.loopHead != nil {
		body := env.fr.loops.body[env.loopHead]
		for _, p := range env.loopHead.Preds {
			if body[p] {
				continue
			}
			for _, ins := range p.Instrs {
				if a, ok := ins.(*ssa.Alloc); ok && a.Comment == name {
					if pv, ok := env.st.regs[a]; ok {
						return ex.cellValue(env, pv), true
					}
				}
			}
		}
	}
	for _, b := range env.fr.fn.Blocks {
		for _, ins := range b.Instrs {
			if a, ok := ins.(*ssa.Alloc); ok && a.Comment == name {
				if _, ok := env.st.regs[a]; ok {
					if best == nil || a.Block().Index >= best.Block().Index {
						best = a
					}
				}
			}
		}
	}
	if best == nil {
		// captured variables of an inlined closure
		for _, fv := range env.fr.fn.FreeVars {
			if fv.Name() == name {
				if p, ok := env.st.regs[fv]; ok {
					return ex.cellValue(env, p), true
				}
			}
		}
		return Val{}, false
	}
	p := env.st.regs[best]
	return ex.cellValue(env, p), true
}

func (ex *Exec) cellValue(env *Env, p Val) Val {
	switch p.Kind {
	case VCellPtr:
		if env.cur != nil {
			if v, ok := env.cur.cells[p.Cell]; ok {
				return v
			}
		}
		return env.st.cells[p.Cell]
	case VTerm:
		// struct/array allocs: the pointer itself is the value of interest
		return p
	}
	return p
}

func (ex *Exec) ev(e SExpr, env *Env) Val {
	env.depth++
	if env.depth > 10000 {
		specFail("spec expression too deep")
	}
	switch x := e.(type) {
	case *SInt:
		n, ok := new(big.Int).SetString(x.V, 0)
		if !ok {
			specFail("bad integer %s", x.V)
		}
		return TV(BigLit(n), types.Typ[types.Int])
	case *SStr:
		return TV(env.st.strLit(x.V), types.Typ[types.String])
	case *SBool:
		return TV(BoolLit(x.V), types.Typ[types.Bool])
	case *SNil:
		return Val{Kind: VNil}
	case *SIdent:
		return ex.evIdent(x.Name, env)
	case *SUn:
		v := ex.ev(x.X, env)
		switch x.Op {
		case "!":
			ex.wantSort(v, SortBool, "!")
			return TV(Not(v.T), v.Ty)
		case "-":
			ex.wantSort(v, SortInt, "-")
			return TV(Neg(v.T), v.Ty)
		case "*":
			// *p for a pointer to a scalar / slice / string / interface variable
			if v.Kind == VTerm && v.T.Sort == SortInt && v.Ty != nil {
				if et, ok := derefPtr(v.Ty); ok {
					if hn, fs, ok := ptrCellHeap(et); ok {
						return TV(Select(ex.heapIn(env, hn, ArraySort(fs)), v.T), et)
					}
				}
			}
			specFail("*x: not a pointer to a scalar, slice, string or interface variable")
		}
	case *SBin:
		return ex.evBin(x, env)
	case *SCond:
		c := ex.ev(x.C, env)
		ex.wantSort(c, SortBool, "?:")
		a, b := ex.ev(x.A, env), ex.ev(x.B, env)
		a, b = ex.unify(a, b, env)
		return TV(Ite(c.T, a.T, b.T), a.Ty)
	case *SSel:
		return ex.evSel(x, env)
	case *SIndex:
		base := ex.ev(x.X, env)
		i := ex.ev(x.I, env)
		ex.wantSort(i, SortInt, "index")
		return ex.indexVal(base, i.T, env)
	case *SSlice:
		base := ex.ev(x.X, env)
		var lo, hi Term
		lo = IntLit(0)
		if x.Lo != nil {
			lo = ex.ev(x.Lo, env).T
		}
		switch {
		case base.Kind == VTerm && base.T.Sort == SortSlice:
			hi = SlLen(base.T)
			if x.Hi != nil {
				hi = ex.ev(x.Hi, env).T
			}
			return TV(MkSlice(SlRg(base.T), Add(SlOff(base.T), lo), Sub(hi, lo), Sub(SlCap(base.T), lo)), base.Ty)
		case base.Kind == VTerm && base.T.Sort == SortBytes:
			hi = BLen(base.T)
			if x.Hi != nil {
				hi = ex.ev(x.Hi, env).T
			}
			return TV(BSub(base.T, lo, hi), base.Ty)
		case base.Kind == VTerm && base.T.Sort == SortInt:
			if arr, ok := arrayOf(base.Ty); ok {
				hi = IntLit(arr.Len())
				if x.Hi != nil {
					hi = ex.ev(x.Hi, env).T
				}
				return TV(MkSlice(base.T, lo, Sub(hi, lo), Sub(IntLit(arr.Len()), lo)), types.NewSlice(arr.Elem()))
			}
		}
		specFail("cannot slice value of sort %s", base.T.Sort)
	case *SCall:
		return ex.evCall(x, env)
	case *SQuant:
		return ex.evQuant(x, env)
	}
	specFail("unsupported spec expression %T", e)
	return Val{}
}

func (ex *Exec) wantSort(v Val, sort, what string) {
	if v.Kind != VTerm || v.T.Sort != sort {
		s := "?"
		if v.Kind == VTerm {
			s = v.T.Sort
		}
		specFail("%s: expected %s, got %s (%s)", what, sort, s, v.T.S)
	}
}

func (ex *Exec) evIdent(name string, env *Env) Val {
	if env.cur != nil && env.oldVars != nil {
		if v, ok := env.oldVars[name]; ok {
			return v
		}
	}
	if v, ok := env.vars[name]; ok {
		return v
	}
	if name == "$ranged" {
		// the slice a range-over-slice loop iterates over (evaluated once
		// before the loop): the operand of the len() feeding the loop test
		if env.loopHead == nil {
			specFail("$ranged outside a loop clause")
		}
		for _, ins := range env.loopHead.Instrs {
			if b, ok := ins.(*ssa.BinOp); ok {
				if c, ok := b.Y.(*ssa.Call); ok {
					if bi, ok := c.Call.Value.(*ssa.Builtin); ok && bi.Name() == "len" {
						return ex.get(env.st, c.Call.Args[0])
					}
				}
			}
		}
		specFail("$ranged: loop is not a range over a slice")
	}
	if name == "$pos" {
		// byte position of the string iterator of the loop whose clause this is
		if env.loopHead != nil {
			for _, ins := range env.loopHead.Instrs {
				if nx, ok := ins.(*ssa.Next); ok {
					if t, ok := env.st.iters[nx.Iter]; ok {
						return TV(t, types.Typ[types.Int])
					}
				}
			}
		}
		if len(env.st.iters) == 1 {
			for _, t := range env.st.iters {
				return TV(t, types.Typ[types.Int])
			}
		}
		specFail("$pos: no (unique) active string iterator")
	}
	if strings.HasPrefix(name, "$") {
		g := ex.db.Ghosts[name]
		if g == nil {
			specFail("undeclared ghost %s", name)
		}
		if g.Kind != "global" {
			specFail("ghost field %s used without an object", name)
		}
		return TV(ex.heapIn(env, "g|"+name, g.Sort), nil)
	}
	if env.cur != nil && env.cur == ex.entry {
		// inside old(): parameters denote entry values
		if env.fr != nil {
			if v, ok := env.fr.params[name]; ok {
				return v
			}
		}
		if v, ok := ex.topParams[name]; ok {
			return v
		}
	}
	if env.locals || env.callerLocals {
		if v, ok := ex.lookupCell(env, name); ok {
			return v
		}
	}
	if !env.calleeCtx || true {
		if env.fr != nil {
			// parameters of the function under verification (entry values)
			if v, ok := ex.topParams[name]; ok && (env.fr.fn == ex.top || env.fr.depth == 0) {
				return v
			}
			if v, ok := env.fr.params[name]; ok {
				return v
			}
		}
	}
	if env.postLocals && env.cur == nil {
		if v, ok := ex.lookupCell(env, name); ok {
			return v
		}
		// a local that was never declared on this path: any value
		if env.fr != nil {
			for _, b := range env.fr.fn.Blocks {
				for _, ins := range b.Instrs {
					if a, ok := ins.(*ssa.Alloc); ok && a.Comment == name {
						et := a.Type().Underlying().(*types.Pointer).Elem()
						key := "undeclared:" + name
						if v, ok := env.vars[key]; ok {
							return v
						}
						v := ex.havocVal(env.st, "undecl_"+name, et)
						env.vars[key] = v
						return v
					}
				}
			}
		}
	}
	if c, ok := ex.db.Consts[name]; ok {
		ce, err := parseSpecExpr(c)
		if err != nil {
			specFail("const %s: %v", name, err)
		}
		return ex.ev(ce, env)
	}
	// package-level objects
	if env.pkg != nil {
		if obj := env.pkg.Scope().Lookup(name); obj != nil {
			return ex.evObject(obj, env)
		}
	}
	specFail("unknown identifier %q", name)
	return Val{}
}

func (ex *Exec) evObject(obj types.Object, env *Env) Val {
	switch o := obj.(type) {
	case *types.Const:
		switch o.Val().Kind() {
		case constant.Int:
			n, _ := new(big.Int).SetString(o.Val().ExactString(), 10)
			return TV(BigLit(n), o.Type())
		case constant.String:
			return TV(env.st.strLit(constant.StringVal(o.Val())), o.Type())
		case constant.Bool:
			return TV(BoolLit(constant.BoolVal(o.Val())), o.Type())
		}
	case *types.Var:
		sp := ex.prog.Package(o.Pkg())
		if sp != nil {
			if g, ok := sp.Members[o.Name()].(*ssa.Global); ok {
				if env.cur != nil && !ex.isImmutableGlobal(g) {
					et := g.Type().Underlying().(*types.Pointer).Elem()
					return TV(env.st.heapAt(env.cur, "V|"+o.Pkg().Path()+"."+o.Name(), sortOf(et)), et)
				}
				return ex.loadGlobal(env.st, g)
			}
		}
		// package not built as SSA (dependency without members): sentinel by name
		return TV(env.st.sentinel(o.Pkg().Path()+"."+o.Name(), sortOf(o.Type())), o.Type())
	}
	specFail("unsupported package-level object %s", obj.Name())
	return Val{}
}

func (ex *Exec) importedPkg(env *Env, name string) *types.Package {
	if env.pkg == nil {
		return nil
	}
	for _, imp := range env.pkg.Imports() {
		if imp.Name() == name {
			return imp
		}
	}
	// well-known packages usable from any spec
	for _, p := range ex.prog.AllPackages() {
		if p.Pkg.Name() == name && (p.Pkg.Path() == name || strings.HasSuffix(p.Pkg.Path(), "/"+name)) {
			if p.Pkg.Path() == "io" || p.Pkg.Path() == "errors" || strings.HasPrefix(p.Pkg.Path(), repoPrefix) {
				return p.Pkg
			}
		}
	}
	return nil
}

func (ex *Exec) evSel(x *SSel, env *Env) Val {
	// package-qualified name?
	if id, ok := x.X.(*SIdent); ok {
		if _, bound := env.vars[id.Name]; !bound {
			_, isCell := Val{}, false
			if env.locals || env.callerLocals {
				_, isCell = ex.lookupCell(env, id.Name)
			}
			_, isParam := ex.topParams[id.Name]
			if env.fr != nil {
				if _, ok := env.fr.params[id.Name]; ok {
					isParam = true
				}
			}
			if !isCell && !isParam {
				if p := ex.importedPkg(env, id.Name); p != nil {
					obj := p.Scope().Lookup(x.Sel)
					if obj == nil {
						specFail("%s.%s not found", id.Name, x.Sel)
					}
					return ex.evObject(obj, env)
				}
			}
		}
	}
	base := ex.ev(x.X, env)
	if strings.HasPrefix(x.Sel, "$") {
		g := ex.db.Ghosts[x.Sel]
		if g == nil {
			specFail("undeclared ghost %s", x.Sel)
		}
		h := ex.heapIn(env, "G|"+x.Sel, ArraySort(g.Sort))
		return TV(Select(h, ex.idOf(base)), nil)
	}
	if base.Kind != VTerm {
		specFail("field %s of non-term value", x.Sel)
	}
	// interface holding a pointer to a module struct: x.(T).f is not supported; use deref via Ty
	s, sty, ok := structOf(base.Ty)
	if !ok {
		specFail("field %s: %s is not a struct pointer", x.Sel, typeStr(base.Ty))
	}
	_, f := fieldByName(s, x.Sel)
	if f == nil {
		specFail("no field %s in %s", x.Sel, typeStr(sty))
	}
	switch f.Type().Underlying().(type) {
	case *types.Array, *types.Struct:
		return TV(ex.fieldRegion(env.st, base.T, sty, f), types.NewPointer(f.Type()))
	}
	fs := sortOf(f.Type())
	h := ex.heapIn(env, fieldHeapName(sty, f), ArraySort(fs))
	r := Select(h, base.T)
	if !env.inQuant {
		// whatever a heap cell holds has been allocated already
		ex.knownVal(env.st, r, f.Type())
		ex.assumeTypeInv(env.st, r, f.Type())
	}
	return TV(r, f.Type())
}

func typeStr(t types.Type) string {
	if t == nil {
		return "<untyped>"
	}
	return t.String()
}

// idOf is the object identity used to index ghost fields.
func (ex *Exec) idOf(v Val) Term {
	if v.Kind != VTerm {
		specFail("ghost field of non-term value")
	}
	switch v.T.Sort {
	case SortInt:
		return v.T
	case SortIface:
		return IfVal(v.T)
	case SortSlice:
		return SlRg(v.T)
	}
	specFail("ghost field of value of sort %s", v.T.Sort)
	return Term{}
}

func (ex *Exec) indexVal(base Val, i Term, env *Env) Val {
	if base.Kind != VTerm {
		specFail("index of non-term")
	}
	switch {
	case base.T.Sort == SortSlice:
		var elem types.Type = types.Typ[types.Uint8]
		if sl, ok := base.Ty.Underlying().(*types.Slice); ok {
			elem = sl.Elem()
		}
		es := sortOf(elem)
		arr := Select(ex.heapIn(env, memName(es), memSort(es)), SlRg(base.T))
		return TV(Select(arr, Add(SlOff(base.T), i)), elem)
	case base.T.Sort == SortBytes:
		return TV(BAt(base.T, i), types.Typ[types.Uint8])
	case strings.HasPrefix(base.T.Sort, "(Array"):
		var elem types.Type
		if base.Ty != nil {
			if arr, ok := base.Ty.Underlying().(*types.Array); ok {
				elem = arr.Elem()
			}
		}
		return TV(Select(base.T, i), elem)
	case base.T.Sort == SortInt:
		if arr, ok := arrayOf(base.Ty); ok {
			es := sortOf(arr.Elem())
			a := Select(ex.heapIn(env, memName(es), memSort(es)), base.T)
			return TV(Select(a, i), arr.Elem())
		}
	}
	specFail("cannot index value of sort %s", base.T.Sort)
	return Val{}
}

// toBytes coerces slices / array pointers / strings to their abstract content.
func (ex *Exec) toBytes(v Val, env *Env) Term {
	if v.Kind != VTerm {
		specFail("bytes() of non-term")
	}
	switch v.T.Sort {
	case SortBytes:
		return v.T
	case SortSlice:
		arr := Select(ex.heapIn(env, memName(SortInt), memSort(SortInt)), SlRg(v.T))
		return BOf(arr, SlOff(v.T), SlLen(v.T))
	case SortInt:
		if a, ok := arrayOf(v.Ty); ok {
			arr := Select(ex.heapIn(env, memName(SortInt), memSort(SortInt)), v.T)
			return BOf(arr, IntLit(0), IntLit(a.Len()))
		}
	}
	if strings.HasPrefix(v.T.Sort, "(Array Int Int") {
		if a, ok := v.Ty.Underlying().(*types.Array); ok {
			return BOf(v.T, IntLit(0), IntLit(a.Len()))
		}
	}
	specFail("bytes(): unsupported sort %s", v.T.Sort)
	return Term{}
}

func (ex *Exec) unify(a, b Val, env *Env) (Val, Val) {
	if a.Kind == VNil && b.Kind == VNil {
		specFail("nil compared with nil")
	}
	if a.Kind == VNil {
		return ex.nilLike(b), b
	}
	if b.Kind == VNil {
		return a, ex.nilLike(a)
	}
	// function values: bound methods and plain functions have a term identity;
	// any other closure gets an opaque one (sound: it equals nothing known)
	fnTerm := func(v Val) Val {
		if v.Kind != VClosure {
			return v
		}
		if t, ok := ex.closureTerm(env.st, v); ok {
			return TV(t, v.Ty)
		}
		return TV(env.st.fresh("closure", SortInt), v.Ty)
	}
	a, b = fnTerm(a), fnTerm(b)
	if a.Kind != VTerm || b.Kind != VTerm {
		specFail("comparison of executor-level values")
	}
	if a.T.Sort == b.T.Sort {
		return a, b
	}
	if a.T.Sort == SortBytes && (b.T.Sort == SortSlice) {
		return a, TV(ex.toBytes(b, env), a.Ty)
	}
	if b.T.Sort == SortBytes && (a.T.Sort == SortSlice) {
		return TV(ex.toBytes(a, env), b.Ty), b
	}
	specFail("sort mismatch: %s:%s vs %s:%s", a.T.S, a.T.Sort, b.T.S, b.T.Sort)
	return a, b
}

func (ex *Exec) nilLike(v Val) Val {
	if v.Kind != VTerm {
		specFail("nil compared with executor-level value")
	}
	switch v.T.Sort {
	case SortInt:
		return TV(IntLit(0), v.Ty)
	case SortIface:
		return TV(NilIface, v.Ty)
	case SortSlice:
		return TV(NilSlice, v.Ty)
	}
	specFail("nil of sort %s", v.T.Sort)
	return Val{}
}

func (ex *Exec) evBin(x *SBin, env *Env) Val {
	boolT := types.Typ[types.Bool]
	switch x.Op {
	case "&&", "||", "==>", "<==>":
		a := ex.ev(x.X, env)
		ex.wantSort(a, SortBool, x.Op)
		b := ex.ev(x.Y, env)
		ex.wantSort(b, SortBool, x.Op)
		switch x.Op {
		case "&&":
			return TV(And(a.T, b.T), boolT)
		case "||":
			return TV(Or(a.T, b.T), boolT)
		case "==>":
			return TV(Implies(a.T, b.T), boolT)
		default:
			return TV(Eq(a.T, b.T), boolT)
		}
	case "==", "!=":
		a, b := ex.ev(x.X, env), ex.ev(x.Y, env)
		var r Term
		if (a.Kind == VNil || b.Kind == VNil) && (a.Kind == VTerm && a.T.Sort == SortSlice || b.Kind == VTerm && b.T.Sort == SortSlice) {
			s := a
			if a.Kind == VNil {
				s = b
			}
			r = Eq(SlRg(s.T), IntLit(0))
		} else {
			a, b = ex.unify(a, b, env)
			if a.T.Sort == SortSlice {
				// content equality for byte slices
				r = Eq(ex.toBytes(a, env), ex.toBytes(b, env))
			} else {
				r = Eq(a.T, b.T)
			}
		}
		if x.Op == "!=" {
			r = Not(r)
		}
		return TV(r, boolT)
	}
	a, b := ex.ev(x.X, env), ex.ev(x.Y, env)
	if x.Op == "+" && a.Kind == VTerm && b.Kind == VTerm && (a.T.Sort == SortBytes || b.T.Sort == SortBytes) {
		return TV(BCat(ex.toBytes(a, env), ex.toBytes(b, env)), types.Typ[types.String])
	}
	ex.wantSort(a, SortInt, x.Op)
	ex.wantSort(b, SortInt, x.Op)
	intT := types.Typ[types.Int]
	switch x.Op {
	case "<":
		return TV(Lt(a.T, b.T), boolT)
	case "<=":
		return TV(Le(a.T, b.T), boolT)
	case ">":
		return TV(Gt(a.T, b.T), boolT)
	case ">=":
		return TV(Ge(a.T, b.T), boolT)
	case "+":
		return TV(Add(a.T, b.T), intT)
	case "-":
		return TV(Sub(a.T, b.T), intT)
	case "*":
		return TV(Mul(a.T, b.T), intT)
	case "/":
		if b.T.K != nil && b.T.K.Sign() > 0 {
			return TV(DivE(a.T, b.T.K), intT)
		}
		return TV(app(SortInt, "div", a.T, b.T), intT)
	case "%":
		if b.T.K != nil && b.T.K.Sign() > 0 {
			return TV(ModE(a.T, b.T.K), intT)
		}
		return TV(app(SortInt, "mod", a.T, b.T), intT)
	case "<<":
		if b.T.K != nil && b.T.K.IsInt64() {
			return TV(Mul(a.T, BigLit(pow2(int(b.T.K.Int64())))), intT)
		}
		if a.T.K != nil && a.T.K.Cmp(big.NewInt(1)) == 0 {
			return TV(ex.pow2Term(env.st, b.T), intT)
		}
	case ">>":
		if b.T.K != nil && b.T.K.IsInt64() {
			return TV(DivE(a.T, pow2(int(b.T.K.Int64()))), intT)
		}
	case "&":
		if k, ok := lowMask(b.T); ok {
			return TV(ModE(a.T, pow2(k)), intT)
		}
	}
	specFail("unsupported operator %s", x.Op)
	return Val{}
}

func (ex *Exec) evQuant(x *SQuant, env *Env) Val {
	lo := ex.ev(x.Lo, env)
	hi := ex.ev(x.Hi, env)
	ex.wantSort(lo, SortInt, "quantifier bound")
	ex.wantSort(hi, SortInt, "quantifier bound")
	env.st.nfresh++
	sym := fmt.Sprintf("q%d_%s", env.st.nfresh, mangle(x.Var))
	bv := TV(mkTerm(sym, SortInt), types.Typ[types.Int])
	qenv := env.with(x.Var, bv)
	qenv.inQuant = true
	body := ex.ev(x.Body, qenv)
	ex.wantSort(body, SortBool, "quantifier body")
	rng := And(Le(lo.T, bv.T), Lt(bv.T, hi.T))
	// small constant ranges are expanded (keeps queries quantifier-free)
	if lo.T.K != nil && hi.T.K != nil && lo.T.K.IsInt64() && hi.T.K.IsInt64() && hi.T.K.Int64()-lo.T.K.Int64() <= 64 {
		var parts []Term
		for i := lo.T.K.Int64(); i < hi.T.K.Int64(); i++ {
			b2 := ex.ev(x.Body, env.with(x.Var, TV(IntLit(i), types.Typ[types.Int])))
			parts = append(parts, b2.T)
		}
		if x.Forall {
			return TV(And(parts...), types.Typ[types.Bool])
		}
		return TV(Or(parts...), types.Typ[types.Bool])
	}
	q := "forall"
	if !x.Forall {
		q = "exists"
	}
	var inner string
	if x.Forall {
		inner = Implies(rng, body.T).S
	} else {
		inner = And(rng, body.T).S
	}
	if !x.Forall {
		// the same re-indexing (see below) for the first candidate trigger: a
		// negated exists in a goal is a forall and needs a matchable pattern
		for _, p := range findPatterns(body.T.S, sym) {
			parts := splitTop(p[1 : len(p)-1])
			idx := parts[2]
			if idx == sym || env.inQuant {
				break
			}
			off := strings.TrimSuffix(strings.TrimPrefix(idx, "(+ "), " "+sym+")")
			env.st.nfresh++
			k := fmt.Sprintf("k%d_%s", env.st.nfresh, mangle(x.Var))
			body2 := strings.ReplaceAll(inner, idx, k)
			body2 = strings.ReplaceAll(body2, sym, "(- "+k+" "+off+")")
			trig := strings.ReplaceAll(p, idx, k)
			// (or-ed with the plain form: equivalent, and leaves the solver its own instantiation heuristics)
			return TV(mkTerm(fmt.Sprintf("(or (exists ((%s Int)) %s) (exists ((%s Int)) (! %s :pattern (%s))))", sym, inner, k, body2, trig), SortBool), types.Typ[types.Bool])
		}
		return TV(mkTerm(fmt.Sprintf("(%s ((%s Int)) %s)", q, sym, inner), SortBool), types.Typ[types.Bool])
	}
	// Triggers: solvers normalise arithmetic, so a pattern (select A (+ off j))
	// rarely matches ground terms. Re-index the quantifier over the absolute
	// index k = off + j, which makes the trigger a plain (select A k). One
	// copy of the formula is emitted per candidate trigger (at most two).
	pats := findPatterns(body.T.S, sym)
	var copies []string
	for _, p := range pats {
		parts := splitTop(p[1 : len(p)-1])
		idx := parts[2]
		if idx == sym {
			copies = append(copies, fmt.Sprintf("(forall ((%s Int)) (! %s :pattern (%s)))", sym, inner, p))
			continue
		}
		// idx = (+ OFF sym)
		off := strings.TrimSuffix(strings.TrimPrefix(idx, "(+ "), " "+sym+")")
		env.st.nfresh++
		k := fmt.Sprintf("k%d_%s", env.st.nfresh, mangle(x.Var))
		body2 := strings.ReplaceAll(inner, idx, k)
		body2 = strings.ReplaceAll(body2, sym, "(- "+k+" "+off+")")
		trig := strings.ReplaceAll(p, idx, k)
		copies = append(copies, fmt.Sprintf("(forall ((%s Int)) (! %s :pattern (%s)))", k, body2, trig))
		if len(copies) >= 3 {
			break
		}
	}
	if len(copies) == 0 {
		return TV(mkTerm(fmt.Sprintf("(forall ((%s Int)) %s)", sym, inner), SortBool), types.Typ[types.Bool])
	}
	if len(copies) == 1 {
		return TV(mkTerm(copies[0], SortBool), types.Typ[types.Bool])
	}
	return TV(mkTerm("(and "+strings.Join(copies, " ")+")", SortBool), types.Typ[types.Bool])
}

// findPatterns collects candidate triggers mentioning the bound variable:
// (select A idx) / (b.at S idx) / uninterpreted applications whose index is the
// variable itself or (+ off var).
func findPatterns(body, v string) []string {
	seen := map[string]bool{}
	var out []string
	var walk func(s string)
	walk = func(s string) {
		if !strings.HasPrefix(s, "(") {
			return
		}
		parts := splitTop(s[1 : len(s)-1])
		if len(parts) == 0 {
			return
		}
		head := parts[0]
		if (head == "select" || head == "b.at") && len(parts) == 3 {
			idx := parts[2]
			if (idx == v || idx == "(+ "+v+")" || (strings.HasPrefix(idx, "(+ ") && strings.HasSuffix(idx, " "+v+")") && !strings.Contains(parts[1], v))) && !strings.Contains(parts[1], v) {
				if !seen[s] {
					seen[s] = true
					out = append(out, s)
				}
			}
		}
		if head == "forall" || head == "exists" {
			return
		}
		for _, p := range parts[1:] {
			walk(p)
		}
	}
	walk(body)
	if len(out) > 3 {
		out = out[:3]
	}
	return out
}

func (ex *Exec) evCall(x *SCall, env *Env) Val {
	intT := types.Typ[types.Int]
	boolT := types.Typ[types.Bool]
	arg := func(i int) Val {
		if i >= len(x.Args) {
			specFail("%s: missing argument %d", x.Fn, i)
		}
		return ex.ev(x.Args[i], env)
	}
	switch x.Fn {
	case "old":
		n := *env
		n.cur = env.old
		n.locals = env.locals
		if env.old == nil {
			specFail("old() has no pre-state here")
		}
		// parameter names inside old() denote entry values
		n.oldParams()
		return ex.ev(x.Args[0], &n)
	case "len":
		v := arg(0)
		if v.Kind == VTerm {
			switch v.T.Sort {
			case SortSlice:
				return TV(SlLen(v.T), intT)
			case SortBytes:
				return TV(BLen(v.T), intT)
			}
			if a, ok := arrayOf(v.Ty); ok {
				return TV(IntLit(a.Len()), intT)
			}
		}
		specFail("len of unsupported value")
	case "cap":
		v := arg(0)
		if v.Kind == VTerm && v.T.Sort == SortSlice {
			return TV(SlCap(v.T), intT)
		}
		specFail("cap of unsupported value")
	case "bytes", "str":
		return TV(ex.toBytes(arg(0), env), types.Typ[types.String])
	case "rg":
		v := arg(0)
		if v.Kind == VTerm && v.T.Sort == SortSlice {
			return TV(SlRg(v.T), intT)
		}
		if v.Kind == VTerm && v.T.Sort == SortInt {
			return TV(v.T, intT)
		}
		specFail("rg of unsupported value")
	case "off":
		v := arg(0)
		ex.wantSort(v, SortSlice, "off")
		return TV(SlOff(v.T), intT)
	case "same":
		a, b := arg(0), arg(1)
		a, b = ex.unify(a, b, env)
		return TV(Eq(a.T, b.T), boolT)
	case "isnil":
		v := arg(0)
		n := ex.nilLike(v)
		if v.T.Sort == SortSlice {
			return TV(Eq(SlRg(v.T), IntLit(0)), boolT)
		}
		return TV(Eq(v.T, n.T), boolT)
	case "wraps":
		a, b := arg(0), arg(1)
		a, b = ex.unify(a, b, env)
		ex.wantSort(a, SortIface, "wraps")
		return TV(app(SortBool, "wraps", a.T, b.T), boolT)
	case "fresh":
		v := arg(0)
		id := ex.idOf(v)
		return TV(And(Not(mkTerm("(isold "+id.S+")", SortBool)), Eq(mkTerm("(rg.kind "+id.S+")", SortInt), IntLit(0))), boolT)
	case "isold":
		v := arg(0)
		return TV(mkTerm("(isold "+ex.idOf(v).S+")", SortBool), boolT)
	case "id":
		return TV(ex.idOf(arg(0)), intT)
	case "dyntype":
		v := arg(0)
		ex.wantSort(v, SortIface, "dyntype")
		return TV(IfTy(v.T), intT)
	case "typeis":
		v := arg(0)
		ex.wantSort(v, SortIface, "typeis")
		s, ok := x.Args[1].(*SStr)
		if !ok {
			specFail("typeis(x, \"type string\")")
		}
		return TV(Eq(IfTy(v.T), IntLit(int64(typeIDByName(s.V)))), boolT)
	case "cat":
		t := ex.toBytes(arg(0), env)
		for i := 1; i < len(x.Args); i++ {
			t = BCat(t, ex.toBytes(arg(i), env))
		}
		return TV(t, types.Typ[types.String])
	case "sub":
		return TV(BSub(ex.toBytes(arg(0), env), arg(1).T, arg(2).T), types.Typ[types.String])
	case "at":
		return TV(BAt(ex.toBytes(arg(0), env), arg(1).T), intT)
	case "min":
		a, b := arg(0), arg(1)
		return TV(Ite(Le(a.T, b.T), a.T, b.T), intT)
	case "max":
		a, b := arg(0), arg(1)
		return TV(Ite(Ge(a.T, b.T), a.T, b.T), intT)
	case "pow2":
		a := arg(0)
		if a.T.K != nil && a.T.K.IsInt64() && a.T.K.Int64() >= 0 && a.T.K.Int64() < 4096 {
			return TV(BigLit(pow2(int(a.T.K.Int64()))), intT)
		}
		return TV(ex.pow2Term(env.st, a.T), intT)
	case "apply":
		// apply(f, k, args...): result k of a pure function value
		f := arg(0)
		kk := arg(1)
		if kk.T.K == nil {
			specFail("apply: result index must be constant")
		}
		var as []Val
		for i := 2; i < len(x.Args); i++ {
			as = append(as, arg(i))
		}
		var ft Term
		var sig *types.Signature
		switch f.Kind {
		case VTerm:
			ft = f.T
			if f.Ty != nil {
				sig, _ = f.Ty.Underlying().(*types.Signature)
			}
		case VClosure:
			t, ok := ex.closureTerm(env.st, f)
			if !ok {
				specFail("apply: closure has no term identity")
			}
			ft = t
			if f.Ty != nil {
				sig, _ = f.Ty.Underlying().(*types.Signature)
			}
		default:
			specFail("apply: function value is not a term")
		}
		if sig == nil {
			specFail("apply: unknown signature")
		}
		k := int(kk.T.K.Int64())
		rt := sig.Results().At(k).Type()
		return TV(ex.applyTerm(env.st, ft, k, as, sortOf(rt)), rt)
	case "boundfn":
		// boundfn("pkg.(*T).m", recv): identity of the method value recv.m
		s, ok := x.Args[0].(*SStr)
		if !ok {
			specFail("boundfn(\"key\", recv)")
		}
		r := arg(1)
		fn := "boundfn." + mangle(s.V)
		if !env.st.decl[fn] {
			env.st.decl[fn] = true
			env.st.emit(fmt.Sprintf("(declare-fun %s (Int) Int)", fn))
		}
		var sig types.Type
		if f := funcIndex[s.V]; f != nil {
			ps := []*types.Var{}
			for i := 1; i < len(f.Params); i++ {
				ps = append(ps, types.NewVar(0, nil, f.Params[i].Name(), f.Params[i].Type()))
			}
			sig = types.NewSignatureType(nil, nil, nil, types.NewTuple(ps...), f.Signature.Results(), false)
		}
		return TV(app(SortInt, fn, ex.idOf(r)), sig)
	}
	switch x.Fn {
	case "cast":
		// cast(x, "pkg.Type"): the *pkg.Type held by interface value x
		v := arg(0)
		sl, ok := x.Args[1].(*SStr)
		if !ok {
			specFail("cast(x, \"pkg.Type\")")
		}
		tn := lookupNamed(ex, sl.V)
		if tn == nil {
			specFail("cast: unknown type %s", sl.V)
		}
		if v.T.Sort == SortIface {
			return TV(IfVal(v.T), types.NewPointer(tn))
		}
		return TV(v.T, types.NewPointer(tn))
	case "xor32", "and32", "or32", "shl32", "shr32", "xor8", "and8", "or8", "shl8", "shr8", "xor64", "and64", "or64", "shl64", "shr64":
		a, b := arg(0), arg(1)
		ex.wantSort(a, SortInt, x.Fn)
		ex.wantSort(b, SortInt, x.Fn)
		op := strings.TrimRight(x.Fn, "0123456789")
		w, _ := strconv.Atoi(x.Fn[len(op):])
		return TV(ex.bvop(env.st, op, w, a.T, b.T), intT)
	case "elems":
		// elems(x): the element array backing slice x (a value snapshot)
		v := arg(0)
		ex.wantSort(v, SortSlice, "elems")
		es := SortInt
		if sl, ok := v.Ty.Underlying().(*types.Slice); ok {
			es = sortOf(sl.Elem())
		}
		return TV(Select(ex.heapIn(env, memName(es), memSort(es)), SlRg(v.T)), nil)
	case "unboxint":
		// unboxint(x): the integer held by interface value x (as boxed by the engine)
		v := arg(0)
		ex.wantSort(v, SortIface, "unboxint")
		fn := ex.boxFn(env.st, SortInt)
		return TV(app(SortInt, "un"+fn, IfVal(v.T)), intT)
	case "unboxstr":
		v := arg(0)
		ex.wantSort(v, SortIface, "unboxstr")
		fn := ex.boxFn(env.st, SortBytes)
		return TV(app(SortBytes, "un"+fn, IfVal(v.T)), types.Typ[types.String])
	case "calls":
		// calls("callee", k): how many times the k-th call site of callee in this
		// function has been executed so far (ghost counter kept by the engine)
		sl, ok := x.Args[0].(*SStr)
		kk, ok2 := x.Args[1].(*SInt)
		if !ok || !ok2 {
			specFail("calls(\"callee\", k)")
		}
		n, _ := strconv.Atoi(kk.V)
		fnKey := ""
		if env.siteFn != "" {
			fnKey = env.siteFn
		} else if env.fr != nil && env.fr.fn != nil {
			fnKey = env.fr.fn.String()
		}
		if env.siteFn == "" && ex.top != nil && fnKey == ex.top.String() && !ex.siteExists(sl.V, n) {
			specFail("calls: no call site %s#%d in %s", sl.V, n, ex.top)
		}
		return TV(ex.heapIn(env, siteHeap(fnKey, sl.V, n), SortInt), intT)
	case "lasterr":
		// lasterr("callee", k): the error returned by the latest execution of the
		// k-th call site of callee in the function under verification ("$1:callee"
		// for a site inside its first closure); nil if it has not executed
		sl, ok := x.Args[0].(*SStr)
		kk, ok2 := x.Args[1].(*SInt)
		if !ok || !ok2 || ex.top == nil {
			specFail("lasterr(\"callee\", k)")
		}
		n, _ := strconv.Atoi(kk.V)
		owner := ex.top.String()
		if env.siteFn != "" {
			owner = env.siteFn
		}
		if env.siteFn == "" && !ex.siteExists(sl.V, n) {
			specFail("lasterr: no call site %s#%d in %s", sl.V, n, ex.top)
		}
		return TV(ex.heapIn(env, siteErrHeap(owner, sl.V, n), SortIface), types.Universe.Lookup("error").Type())
	case "lastret":
		// lastret("callee", k, i): result i of the latest execution of the k-th
		// call site of callee in the function under verification
		sl, ok := x.Args[0].(*SStr)
		kk, ok2 := x.Args[1].(*SInt)
		ii, ok3 := x.Args[2].(*SInt)
		if !ok || !ok2 || !ok3 || ex.top == nil {
			specFail("lastret(\"callee\", k, i)")
		}
		kn, _ := strconv.Atoi(kk.V)
		in, _ := strconv.Atoi(ii.V)
		rt := ex.siteResultType(sl.V, kn, in)
		if rt == nil {
			specFail("lastret: no call site %s#%d with a result %d in %s", sl.V, kn, in, ex.top)
		}
		return TV(ex.heapIn(env, fmt.Sprintf("%s.%d", siteRetHeap(ex.top.String(), sl.V, kn), in), sortOf(rt)), rt)
	case "lastbytes":
		// lastbytes("callee", k, i): the content, at the moment of the return, of
		// the []byte result i of the latest execution of that call site
		sl, ok := x.Args[0].(*SStr)
		kk, ok2 := x.Args[1].(*SInt)
		ii, ok3 := x.Args[2].(*SInt)
		if !ok || !ok2 || !ok3 || ex.top == nil {
			specFail("lastbytes(\"callee\", k, i)")
		}
		kn, _ := strconv.Atoi(kk.V)
		in, _ := strconv.Atoi(ii.V)
		rt := ex.siteResultType(sl.V, kn, in)
		if rt == nil {
			specFail("lastbytes: no call site %s#%d with a result %d in %s", sl.V, kn, in, ex.top)
		}
		if st, ok := rt.Underlying().(*types.Slice); !ok || sortOf(st.Elem()) != SortInt {
			specFail("lastbytes: result %d of %s#%d is not a byte slice", in, sl.V, kn)
		}
		return TV(ex.heapIn(env, fmt.Sprintf("%s.%d.bytes", siteRetHeap(ex.top.String(), sl.V, kn), in), SortBytes), types.Typ[types.String])
	case "structval":
		// the struct value behind an immutable package-level pointer variable
		v := arg(0)
		if v.Kind != VTerm || !strings.HasPrefix(v.T.S, "G_") {
			specFail("structval: not a package-level pointer")
		}
		sym := "sv." + v.T.S
		env.st.declare(sym, SortInt)
		return TV(mkTerm(sym, SortInt), nil)
	case "liberr":
		v := arg(0)
		ex.wantSort(v, SortIface, "liberr")
		return TV(app(SortBool, "liberr", v.T), boolT)
	case "typeimpl":
		// typeimpl(x, "pkg.Iface"): the dynamic type of x implements the interface
		v := arg(0)
		ex.wantSort(v, SortIface, "typeimpl")
		sl, ok := x.Args[1].(*SStr)
		if !ok {
			specFail("typeimpl(x, \"pkg.Iface\")")
		}
		tn := lookupNamed(ex, sl.V)
		if tn == nil {
			specFail("typeimpl: unknown type %s", sl.V)
		}
		fn := ex.implFn(env.st, tn)
		return TV(app(SortBool, fn, IfTy(v.T)), boolT)
	case "disjoint":
		a, b := arg(0), arg(1)
		return TV(Not(Eq(ex.idOf(a), ex.idOf(b))), boolT)
	case "unchanged":
		// unchanged(x): every element of slice x is what it was at function entry
		cur := arg(0)
		n := *env
		n.cur = env.old
		old := ex.ev(x.Args[0], &n)
		if cur.Kind != VTerm || cur.T.Sort != SortSlice {
			specFail("unchanged: not a slice")
		}
		es := SortInt
		if sl, ok := cur.Ty.Underlying().(*types.Slice); ok {
			es = sortOf(sl.Elem())
		}
		curArr := Select(ex.heapIn(env, memName(es), memSort(es)), SlRg(cur.T))
		oldArr := Select(ex.heapIn(&n, memName(es), memSort(es)), SlRg(old.T))
		env.st.nfresh++
		k := fmt.Sprintf("k%d_u", env.st.nfresh)
		lo := SlOff(cur.T)
		hi := Add(lo, SlLen(cur.T))
		q := fmt.Sprintf("(forall ((%s Int)) (! (=> (and (<= %s %s) (< %s %s)) (= (select %s %s) (select %s %s))) :pattern ((select %s %s))))",
			k, lo.S, k, k, hi.S, curArr.S, k, oldArr.S, k, curArr.S, k)
		return TV(And(Eq(cur.T, old.T), mkTerm(q, SortBool)), boolT)
	case "sameobject":
		// sameobject(p): every field of the struct *p (all of them, as declared by
		// the type in the current tree) holds what it held at function entry;
		// embedded arrays keep their whole content
		v := arg(0)
		stt, sty, ok := structOf(v.Ty)
		if !ok || v.Kind != VTerm || v.T.Sort != SortInt {
			specFail("sameobject: not a pointer to a struct")
		}
		n := *env
		n.cur = env.old
		var conj []Term
		for i := 0; i < stt.NumFields(); i++ {
			f := stt.Field(i)
			switch fu := f.Type().Underlying().(type) {
			case *types.Array:
				rg := ex.fieldRegion(env.st, v.T, sty, f)
				es := sortOf(fu.Elem())
				conj = append(conj, Eq(Select(ex.heapIn(env, memName(es), memSort(es)), rg), Select(ex.heapIn(&n, memName(es), memSort(es)), rg)))
			case *types.Struct:
				specFail("sameobject: nested struct field %s is not supported", f.Name())
			default:
				hn := fieldHeapName(sty, f)
				fs := sortOf(f.Type())
				conj = append(conj, Eq(Select(ex.heapIn(env, hn, ArraySort(fs)), v.T), Select(ex.heapIn(&n, hn, ArraySort(fs)), v.T)))
			}
		}
		if len(conj) == 0 {
			return TV(TrueT, boolT)
		}
		return TV(And(conj...), boolT)
	case "isfunc":
		// isfunc(f, "pkg.Name"): f is exactly that package-level function
		v := arg(0)
		sl, ok := x.Args[1].(*SStr)
		if !ok {
			specFail("isfunc(f, \"pkg.Func\")")
		}
		if v.Kind == VClosure && v.Fn != nil && len(v.Binds) == 0 {
			return TV(BoolLit(v.Fn.String() == sl.V), boolT)
		}
		return TV(FalseT, boolT)
	case "upd":
		a, i, v := arg(0), arg(1), arg(2)
		if !strings.HasPrefix(a.T.Sort, "(Array") {
			specFail("upd: not an array")
		}
		return TV(Store(a.T, i.T, v.T), a.Ty)
	case "ifacetype":
		// ifacetype("pkg.Type" or "*pkg.Type"): dynamic type id
		sl, ok := x.Args[0].(*SStr)
		if !ok {
			specFail("ifacetype(\"type\")")
		}
		return TV(IntLit(int64(typeIDByName(sl.V))), intT)
	}
	if sf, ok := ex.db.StateFns[x.Fn]; ok {
		if len(sf.Params) != len(x.Args) {
			specFail("statefn %s: want %d args", x.Fn, len(sf.Params))
		}
		var ts []Term
		var sorts []string
		for i, ps := range sf.Params {
			v := arg(i)
			var t Term
			if ps == SortBytes {
				t = ex.toBytes(v, env)
			} else if ps == SortInt && v.Kind == VTerm && v.T.Sort != SortInt {
				t = ex.idOf(v)
			} else {
				t = v.T
			}
			ts = append(ts, t)
			sorts = append(sorts, ps)
		}
		for _, r := range sf.Reads {
			hn, hs := resolveHeapName(r)
			if hn == "" {
				specFail("statefn %s: unknown heap %s", x.Fn, r)
			}
			ts = append(ts, ex.heapIn(env, hn, hs))
			sorts = append(sorts, hs)
		}
		fn := "sf." + sf.Name
		if !env.st.decl[fn] {
			env.st.decl[fn] = true
			env.st.emit(fmt.Sprintf("(declare-fun %s (%s) %s)", fn, strings.Join(sorts, " "), sf.Result))
		}
		return TV(app(sf.Result, fn, ts...), nil)
	}
	if d, ok := ex.db.Defines[x.Fn]; ok {
		// a defined spec function: applied by name (its define-fun is in the prelude)
		if len(d.Params) != len(x.Args) {
			specFail("define %s: want %d args", x.Fn, len(d.Params))
		}
		var ts []Term
		for i := range d.Params {
			v := arg(i)
			ex.wantSort(v, SortInt, x.Fn)
			ts = append(ts, v.T)
		}
		return TV(app(SortInt, x.Fn, ts...), intT)
	}
	if p, ok := ex.db.Preds[x.Fn]; ok {
		if len(p.Params) != len(x.Args) {
			specFail("pred %s: want %d args", x.Fn, len(p.Params))
		}
		n := *env
		n.vars = make(map[string]Val, len(env.vars)+len(p.Params))
		for k, v := range env.vars {
			n.vars[k] = v
		}
		for i, pn := range p.Params {
			n.vars[pn] = arg(i)
		}
		return ex.ev(p.Body, &n)
	}
	if f, ok := ex.db.SpecFns[x.Fn]; ok {
		if len(f.Params) != len(x.Args) {
			specFail("specfn %s: want %d args, got %d", x.Fn, len(f.Params), len(x.Args))
		}
		var ts []Term
		for i, ps := range f.Params {
			v := arg(i)
			var t Term
			switch {
			case v.Kind == VNil && ps == SortBytes:
				t = BEmpty
			case ps == SortBytes:
				t = ex.toBytes(v, env)
			case ps == SortInt && v.Kind == VTerm && v.T.Sort != SortInt:
				t = ex.idOf(v)
			default:
				if v.Kind != VTerm {
					specFail("specfn %s arg %d: executor-level value", x.Fn, i)
				}
				t = v.T
			}
			if t.Sort != ps {
				specFail("specfn %s arg %d: want %s got %s", x.Fn, i, ps, t.Sort)
			}
			ts = append(ts, t)
		}
		if len(ts) == 0 {
			return TV(mkTerm(x.Fn, f.Result), nil)
		}
		return TV(app(f.Result, x.Fn, ts...), nil)
	}
	specFail("unknown spec function %q", x.Fn)
	return Val{}
}

// oldParams: inside old(), parameter names of the function under
// verification denote their entry values (locals are looked up in the old
// cell snapshot).
func (env *Env) oldParams() {}

func lookupNamed(ex *Exec, name string) types.Type {
	i := strings.LastIndex(name, ".")
	if i < 0 {
		return nil
	}
	pkgPath, tn := name[:i], name[i+1:]
	for _, p := range ex.prog.AllPackages() {
		if p.Pkg.Path() == pkgPath {
			if o := p.Pkg.Scope().Lookup(tn); o != nil {
				return o.Type()
			}
		}
	}
	return nil
}

// resolveHeapName maps "Type.field" / "mem.Sort" to a heap name and sort.
func resolveHeapName(r string) (string, string) {
	if strings.HasPrefix(r, "mem.") {
		es := r[4:]
		return memName(es), memSort(es)
	}
	i := strings.LastIndex(r, ".")
	if i < 0 {
		return "", ""
	}
	ty, f := r[:i], r[i+1:]
	var found, fs string
	for name, sort := range allFieldHeaps {
		parts := strings.Split(name, "|")
		if len(parts) == 3 && parts[2] == f && (strings.HasSuffix(parts[1], "."+ty) || parts[1] == ty) {
			if found == "" || name < found {
				found, fs = name, sort
			}
		}
	}
	return found, fs
}

// closureTerm gives bound method values (recv.m) a term identity:
// boundfn.<method>(id of recv), the same term the spec builtin boundfn yields.
func (ex *Exec) closureTerm(st *State, f Val) (Term, bool) {
	if f.Kind != VClosure || f.Fn == nil {
		return Term{}, false
	}
	if strings.HasSuffix(f.Fn.Name(), "$bound") && len(f.Binds) == 1 && f.Binds[0].Kind == VTerm {
		m := ex.boundTarget(f.Fn)
		if m == nil {
			return Term{}, false
		}
		fn := "boundfn." + mangle(m.String())
		if !st.decl[fn] {
			st.decl[fn] = true
			st.emit(fmt.Sprintf("(declare-fun %s (Int) Int)", fn))
		}
		return app(SortInt, fn, ex.idOf(f.Binds[0])), true
	}
	if len(f.Binds) == 0 {
		return IntLit(int64(typeIDByName("fn:" + f.Fn.String()))), true
	}
	return Term{}, false
}

package main

import (
	"fmt"
	"regexp"
	"go/types"
	"math/big"
	"strings"
)

// sortOf maps a Go type to the SMT sort of its values (int mode).
func sortOf(t types.Type) string {
	switch u := t.Underlying().(type) {
	case *types.Basic:
		switch {
		case u.Info()&types.IsBoolean != 0:
			return SortBool
		case u.Info()&types.IsInteger != 0:
			return SortInt
		case u.Info()&types.IsString != 0:
			return SortBytes
		case u.Kind() == types.UnsafePointer:
			return SortInt
		case u.Kind() == types.UntypedNil:
			return SortInt
		}
		return SortInt // floats etc.: opaque
	case *types.Pointer:
		return SortInt
	case *types.Slice:
		return SortSlice
	case *types.Interface:
		return SortIface
	case *types.Array:
		return ArraySort(sortOf(u.Elem()))
	case *types.Signature, *types.Map, *types.Chan, *types.Struct, *types.Tuple:
		return SortInt
	}
	return SortInt
}

func isInteger(t types.Type) bool {
	b, ok := t.Underlying().(*types.Basic)
	return ok && b.Info()&types.IsInteger != 0
}

func isString(t types.Type) bool {
	b, ok := t.Underlying().(*types.Basic)
	return ok && b.Info()&types.IsString != 0
}

func isUnsigned(t types.Type) bool {
	b, ok := t.Underlying().(*types.Basic)
	return ok && b.Info()&types.IsUnsigned != 0
}

func intBits(t types.Type) int {
	b, ok := t.Underlying().(*types.Basic)
	if !ok {
		return 64
	}
	switch b.Kind() {
	case types.Int8, types.Uint8:
		return 8
	case types.Int16, types.Uint16:
		return 16
	case types.Int32, types.Uint32:
		return 32
	}
	return 64
}

func intRange(t types.Type) (lo, hi *big.Int) {
	bits := intBits(t)
	one := big.NewInt(1)
	if isUnsigned(t) {
		return big.NewInt(0), new(big.Int).Sub(new(big.Int).Lsh(one, uint(bits)), one)
	}
	h := new(big.Int).Lsh(one, uint(bits-1))
	return new(big.Int).Neg(h), new(big.Int).Sub(h, one)
}

func pow2(n int) *big.Int { return new(big.Int).Lsh(big.NewInt(1), uint(n)) }

// rangeFact is the type invariant of an integer-typed term.
func rangeFact(t Term, ty types.Type) Term {
	if !isInteger(ty) || t.K != nil {
		return TrueT
	}
	lo, hi := intRange(ty)
	return And(Le(BigLit(lo), t), Le(t, BigLit(hi)))
}

func derefPtr(t types.Type) (types.Type, bool) {
	if p, ok := t.Underlying().(*types.Pointer); ok {
		return p.Elem(), true
	}
	return nil, false
}

// structOf returns the struct type (through at most one pointer).
func structOf(t types.Type) (*types.Struct, types.Type, bool) {
	if e, ok := derefPtr(t); ok {
		t = e
	}
	s, ok := t.Underlying().(*types.Struct)
	return s, t, ok
}

// ---- struct canonical names (aliases via pointer conversions) ---------

var structAlias = map[string]string{}

func canonStructName(t types.Type) string {
	var name string
	if n, ok := t.(*types.Named); ok {
		name = n.Obj().Name()
		if n.Obj().Pkg() != nil {
			name = n.Obj().Pkg().Path() + "." + name
		}
	} else {
		name = "anon:" + t.String()
	}
	for {
		a, ok := structAlias[name]
		if !ok || a == name {
			return name
		}
		name = a
	}
}

func unionStructs(a, b types.Type) {
	na, nb := canonStructName(a), canonStructName(b)
	if na == nb {
		return
	}
	// prefer the lexicographically larger (internal/format over age) deterministically
	if na < nb {
		structAlias[na] = nb
	} else {
		structAlias[nb] = na
	}
}

func fieldHeapName(structTy types.Type, field *types.Var) string {
	return "F|" + canonStructName(structTy) + "|" + field.Name()
}

func fieldByName(s *types.Struct, name string) (int, *types.Var) {
	for i := 0; i < s.NumFields(); i++ {
		if s.Field(i).Name() == name {
			return i, s.Field(i)
		}
	}
	return -1, nil
}

// ---- type identifiers for interface dynamic types ---------------------

var (
	tyIDs   = map[string]int{}
	tyNames []string
)

var byteRe = regexp.MustCompile(`\bbyte\b`)
var runeRe = regexp.MustCompile(`\brune\b`)

func typeID(t types.Type) int {
	k := types.TypeString(t, nil)
	k = byteRe.ReplaceAllString(k, "uint8")
	k = runeRe.ReplaceAllString(k, "int32")
	if id, ok := tyIDs[k]; ok {
		return id
	}
	id := len(tyIDs) + 1
	tyIDs[k] = id
	tyNames = append(tyNames, k)
	return id
}

func typeIDByName(name string) int {
	if id, ok := tyIDs[name]; ok {
		return id
	}
	id := len(tyIDs) + 1
	tyIDs[name] = id
	tyNames = append(tyNames, name)
	return id
}

func regionFn(structTy types.Type, field *types.Var) string {
	return "rgn." + mangle(canonStructName(structTy)) + "." + field.Name()
}

func typeKeyShort(t types.Type) string {
	s := types.TypeString(t, func(p *types.Package) string { return p.Name() })
	return strings.ReplaceAll(s, " ", "")
}

func mustSort(v Val) string {
	if v.Kind != VTerm {
		panic(fmt.Sprintf("value of kind %d has no sort", v.Kind))
	}
	return v.T.Sort
}

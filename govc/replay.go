package main

// Counterexample replay on the real code.
//
// When a solver returns a model for the negation of an obligation of a plain
// function whose parameters are scalars, strings, byte slices, string slices
// or pointers to byte arrays, the model's parameter values are turned into an
// in-package Go test that calls the REAL function of the tree under check
// (injected with `go test -overlay`, nothing is written to the repository).
// The replay confirms the violation when
//   - the obligation is a run-time-safety one and the call panics, or
//   - the values the real call returns are exactly the values the model
//     predicted for the results (the model is then a real execution, and the
//     solver established that it violates the postcondition).
// Anything else (no model, unsupported types, values beyond the size caps, a
// model that the real code does not reproduce) is reported as
// no-failing-input-found.

import (
	"bytes"
	"context"
	"encoding/json"
	"fmt"
	"go/types"
	"os"
	"os/exec"
	"path/filepath"
	"regexp"
	"strconv"
	"strings"
	"time"

	"golang.org/x/tools/go/ssa"
)

const (
	replayMaxLen   = 96 // bytes per string / slice taken from a model
	replayMaxElems = 8  // strings per []string
)

type ReplayVal struct {
	Name  string
	Kind  string // int | bool | string | bytes | arrptr | strings | error
	GoTy  string
	N     int    // array length for arrptr
	Term  string // scalar / Bytes / Iface term
	Rg    string // slices: region, offset, length terms and the memory term
	Off   string
	Len   string
	Mem   string
	MemB  string // []string: memory of Bytes
	Index int
}

type ReplayInfo struct {
	PkgPath string
	PkgName string
	Dir     string // package directory relative to the repository root
	Func    string
	Params  []ReplayVal
	Results []ReplayVal
	Finals  []ReplayVal // final contents of arrays passed by pointer
}

func goBasicName(t types.Type) (string, bool) {
	b, ok := t.Underlying().(*types.Basic)
	if !ok {
		return "", false
	}
	if _, named := t.(*types.Named); named {
		return "", false
	}
	return b.Name(), true
}

func isByteT(t types.Type) bool {
	b, ok := t.Underlying().(*types.Basic)
	return ok && (b.Kind() == types.Uint8)
}

// replayParam classifies a parameter / result type.
func replayKind(t types.Type) (kind, goty string, n int, ok bool) {
	switch u := t.Underlying().(type) {
	case *types.Basic:
		name, plain := goBasicName(t)
		if !plain {
			return "", "", 0, false
		}
		switch {
		case u.Info()&types.IsBoolean != 0:
			return "bool", name, 0, true
		case u.Info()&types.IsInteger != 0:
			return "int", name, 0, true
		case u.Info()&types.IsString != 0:
			return "string", name, 0, true
		}
	case *types.Slice:
		if _, named := t.(*types.Named); named {
			return "", "", 0, false
		}
		if isByteT(u.Elem()) {
			return "bytes", "[]byte", 0, true
		}
		if b, ok := u.Elem().(*types.Basic); ok && b.Kind() == types.String {
			return "strings", "[]string", 0, true
		}
	case *types.Pointer:
		if arr, ok := u.Elem().Underlying().(*types.Array); ok && isByteT(arr.Elem()) {
			if _, named := u.Elem().(*types.Named); !named {
				return "arrptr", fmt.Sprintf("[%d]byte", arr.Len()), int(arr.Len()), true
			}
		}
	case *types.Interface:
		if t.String() == "error" {
			return "error", "error", 0, true
		}
	}
	return "", "", 0, false
}

// replayBaseFor prepares the parameter half of the replay recipe, or nil when
// the function is outside the replayable subset.
func (ex *Exec) replayBaseFor(st *State, fn *ssa.Function, c *Contract) *ReplayInfo {
	if fn.Signature.Recv() != nil || len(fn.FreeVars) > 0 || fn.Pkg == nil || fn.Parent() != nil || fn.TypeParams().Len() > 0 {
		return nil
	}
	if !strings.HasPrefix(fn.Pkg.Pkg.Path(), repoPrefix) {
		return nil
	}
	ri := &ReplayInfo{PkgPath: fn.Pkg.Pkg.Path(), PkgName: fn.Pkg.Pkg.Name(), Func: fn.Name()}
	ri.Dir = strings.TrimPrefix(strings.TrimPrefix(ri.PkgPath, strings.TrimSuffix(repoPrefix, "/")), "/")
	if ri.Dir == "" {
		ri.Dir = "."
	}
	memInt := st.heapV0(memName(SortInt), memSort(SortInt)).S
	memBytes := st.heapV0(memName(SortBytes), memSort(SortBytes)).S
	for i, p := range fn.Params {
		kind, goty, n, ok := replayKind(p.Type())
		if !ok || kind == "error" {
			return nil
		}
		name := p.Name()
		if i < len(c.Params) && c.Params[i] != "" && c.Params[i] != "_" {
			name = c.Params[i]
		}
		v, okp := ex.topParams[name]
		if !okp || v.Kind != VTerm {
			return nil
		}
		rv := ReplayVal{Name: name, Kind: kind, GoTy: goty, N: n, Term: v.T.S, Index: i}
		switch kind {
		case "bytes", "strings":
			rv.Rg, rv.Off, rv.Len = SlRg(v.T).S, SlOff(v.T).S, SlLen(v.T).S
			rv.Mem, rv.MemB = memInt, memBytes
		case "arrptr":
			rv.Mem = memInt
		}
		ri.Params = append(ri.Params, rv)
	}
	return ri
}

// withResults completes the recipe with the result terms of one exit.
func (ri *ReplayInfo) withResults(ex *Exec, st *State, sig *types.Signature, rets []Val) *ReplayInfo {
	if ri == nil {
		return nil
	}
	cp := *ri
	cp.Results = nil
	for i, r := range rets {
		if i >= sig.Results().Len() || r.Kind != VTerm {
			cp.Results = append(cp.Results, ReplayVal{Kind: "skip", Index: i})
			continue
		}
		kind, goty, n, ok := replayKind(sig.Results().At(i).Type())
		if !ok || kind == "arrptr" || kind == "strings" {
			cp.Results = append(cp.Results, ReplayVal{Kind: "skip", Index: i})
			continue
		}
		rv := ReplayVal{Kind: kind, GoTy: goty, N: n, Term: r.T.S, Index: i}
		if kind == "bytes" {
			rv.Rg, rv.Off, rv.Len = SlRg(r.T).S, SlOff(r.T).S, SlLen(r.T).S
			rv.Mem = st.heap(memName(SortInt), memSort(SortInt)).S
		}
		cp.Results = append(cp.Results, rv)
	}
	// byte arrays passed by pointer: their final contents are outputs too
	for i, p := range ri.Params {
		if p.Kind == "arrptr" {
			cp.Finals = append(cp.Finals, ReplayVal{Kind: "arrptr", GoTy: p.GoTy, N: p.N, Term: p.Term, Mem: st.heap(memName(SortInt), memSort(SortInt)).S, Index: i})
		}
	}
	return &cp
}

// ---- model queries ----------------------------------------------------

type modelQuery struct {
	terms []string
}

func (q *modelQuery) add(t string) int {
	q.terms = append(q.terms, t)
	return len(q.terms) - 1
}

var declRe = regexp.MustCompile(`\(declare-(?:const|fun) (\S+) `)

// runModelQuery re-runs the failing query with get-value requests.
func runModelQuery(queryFile, solverName string, q *modelQuery) ([]string, error) {
	src, err := os.ReadFile(queryFile)
	if err != nil {
		return nil, err
	}
	text := string(src)
	declared := map[string]bool{}
	for _, m := range declRe.FindAllStringSubmatch(text, -1) {
		declared[m[1]] = true
	}
	i := strings.LastIndex(text, "(check-sat)")
	if i < 0 {
		return nil, fmt.Errorf("no check-sat in query")
	}
	var sb strings.Builder
	sb.WriteString(text[:i+len("(check-sat)")])
	sb.WriteString("\n")
	symRe := regexp.MustCompile(`[A-Za-z_][A-Za-z0-9_.|$!@#-]*`)
	skip := make([]bool, len(q.terms))
	for k, t := range q.terms {
		// a term over a symbol the query never declared is unconstrained
		for _, s := range symRe.FindAllString(t, -1) {
			if (strings.HasPrefix(s, "H_") || strings.HasPrefix(s, "p_")) && !declared[s] {
				skip[k] = true
			}
		}
		if skip[k] {
			continue
		}
		fmt.Fprintf(&sb, "(echo \"@@gv %d\")\n(get-value (%s))\n", k, t)
	}
	sb.WriteString("(exit)\n")
	f := queryFile + ".gv.smt2"
	if err := os.WriteFile(f, []byte(sb.String()), 0644); err != nil {
		return nil, err
	}
	defer os.Remove(f)
	var s *Solver
	for k := range solvers {
		if solvers[k].Name == solverName {
			s = &solvers[k]
		}
	}
	if s == nil {
		s = &solvers[0]
	}
	ctx, cancel := context.WithTimeout(context.Background(), 40*time.Second)
	defer cancel()
	args := s.Cmd(f, 20000)
	cmd := exec.CommandContext(ctx, args[0], args[1:]...)
	var out bytes.Buffer
	cmd.Stdout = &out
	cmd.Stderr = &out
	cmd.Run()
	res := make([]string, len(q.terms))
	parts := strings.Split(out.String(), "@@gv ")
	if !strings.Contains(parts[0], "sat") || strings.Contains(parts[0], "unsat") {
		return nil, fmt.Errorf("model query did not reproduce sat: %s", tail(parts[0], 200))
	}
	for _, p := range parts[1:] {
		nl := strings.Index(p, "\n")
		if nl < 0 {
			continue
		}
		k, err := strconv.Atoi(strings.TrimSpace(strings.Trim(p[:nl], "\"")))
		if err != nil || k < 0 || k >= len(res) {
			continue
		}
		res[k] = lastSexprValue(p[nl+1:])
	}
	for k := range res {
		if skip[k] {
			res[k] = "0"
		}
	}
	return res, nil
}

func isSMTKeyword(s string) bool {
	switch s {
	case "select", "store", "ite", "and", "or", "not", "mod", "div", "let", "true", "false", "distinct":
		return true
	}
	return false
}

// lastSexprValue extracts v from "((term v))".
func lastSexprValue(s string) string {
	s = strings.TrimSpace(s)
	// strip the two outer parens
	if !strings.HasPrefix(s, "((") {
		return ""
	}
	depth := 0
	end := -1
	for i, c := range s {
		if c == '(' {
			depth++
		} else if c == ')' {
			depth--
			if depth == 0 {
				end = i
				break
			}
		}
	}
	if end < 0 {
		return ""
	}
	inner := strings.TrimSpace(s[1:end]) // (term v)
	inner = strings.TrimSpace(inner[1 : len(inner)-1])
	// the value is the last top-level s-expression of inner
	depth = 0
	start := len(inner)
	for i := len(inner) - 1; i >= 0; i-- {
		c := inner[i]
		if c == ')' {
			depth++
		} else if c == '(' {
			depth--
			if depth == 0 {
				start = i
				break
			}
		} else if depth == 0 && (c == ' ' || c == '\n' || c == '\t') {
			start = i + 1
			break
		}
	}
	return strings.TrimSpace(inner[start:])
}

func smtInt(v string) (int64, bool) {
	v = strings.TrimSpace(v)
	neg := false
	if strings.HasPrefix(v, "(-") {
		neg = true
		v = strings.TrimSpace(strings.TrimSuffix(strings.TrimPrefix(v, "(-"), ")"))
	}
	n, err := strconv.ParseInt(v, 10, 64)
	if err != nil {
		return 0, false
	}
	if neg {
		n = -n
	}
	return n, true
}

// ---- the replay itself ---------------------------------------------------

type concreteVal struct {
	kind  string
	i     int64
	b     bool
	bytes []byte
	strs  []string
	isNil bool
}

func (v *ReplayVal) requests(q *modelQuery, maxLen int64) (lenIdx int, elemIdx []int) {
	lenIdx = -1
	switch v.Kind {
	case "int", "bool":
		lenIdx = q.add(v.Term)
	case "error":
		lenIdx = q.add("(= " + v.Term + " (mk-iface 0 0))")
	case "string":
		lenIdx = q.add("(b.len " + v.Term + ")")
		for j := int64(0); j < maxLen; j++ {
			elemIdx = append(elemIdx, q.add(fmt.Sprintf("(b.at %s %d)", v.Term, j)))
		}
	case "bytes":
		lenIdx = q.add(v.Len)
		for j := int64(0); j < maxLen; j++ {
			elemIdx = append(elemIdx, q.add(fmt.Sprintf("(select (select %s %s) (+ %s %d))", v.Mem, v.Rg, v.Off, j)))
		}
	case "arrptr":
		for j := 0; j < v.N; j++ {
			elemIdx = append(elemIdx, q.add(fmt.Sprintf("(select (select %s %s) %d)", v.Mem, v.Term, j)))
		}
	case "strings":
		lenIdx = q.add(v.Len)
		for e := 0; e < replayMaxElems; e++ {
			el := fmt.Sprintf("(select (select %s %s) (+ %s %d))", v.MemB, v.Rg, v.Off, e)
			elemIdx = append(elemIdx, q.add("(b.len "+el+")"))
			for j := 0; j < 32; j++ {
				elemIdx = append(elemIdx, q.add(fmt.Sprintf("(b.at %s %d)", el, j)))
			}
		}
	}
	return
}

func (v *ReplayVal) decode(vals []string, lenIdx int, elemIdx []int) (*concreteVal, bool) {
	cv := &concreteVal{kind: v.Kind}
	get := func(k int) (int64, bool) { return smtInt(vals[k]) }
	switch v.Kind {
	case "int":
		n, ok := get(lenIdx)
		cv.i = n
		return cv, ok
	case "bool":
		cv.b = strings.TrimSpace(vals[lenIdx]) == "true"
		return cv, vals[lenIdx] != ""
	case "error":
		cv.isNil = strings.TrimSpace(vals[lenIdx]) == "true"
		return cv, vals[lenIdx] != ""
	case "string", "bytes":
		n, ok := get(lenIdx)
		if !ok || n < 0 || n > int64(len(elemIdx)) {
			return nil, false
		}
		for j := int64(0); j < n; j++ {
			b, ok := get(elemIdx[j])
			if !ok {
				b = 0
			}
			cv.bytes = append(cv.bytes, byte(((b%256)+256)%256))
		}
		return cv, true
	case "arrptr":
		for _, k := range elemIdx {
			b, ok := get(k)
			if !ok {
				b = 0
			}
			cv.bytes = append(cv.bytes, byte(((b%256)+256)%256))
		}
		return cv, true
	case "strings":
		n, ok := get(lenIdx)
		if !ok || n < 0 || n > replayMaxElems {
			return nil, false
		}
		for e := int64(0); e < n; e++ {
			base := int(e) * 33
			l, ok := get(elemIdx[base])
			if !ok || l < 0 || l > 32 {
				return nil, false
			}
			var bs []byte
			for j := int64(0); j < l; j++ {
				b, _ := get(elemIdx[base+1+int(j)])
				bs = append(bs, byte(((b%256)+256)%256))
			}
			cv.strs = append(cv.strs, string(bs))
		}
		return cv, true
	}
	return nil, false
}

func (cv *concreteVal) goLiteral(v *ReplayVal) string {
	switch v.Kind {
	case "int":
		return fmt.Sprintf("%s(%d)", v.GoTy, cv.i)
	case "bool":
		return fmt.Sprint(cv.b)
	case "string":
		return strconv.Quote(string(cv.bytes))
	case "bytes":
		return "[]byte(" + strconv.Quote(string(cv.bytes)) + ")"
	case "arrptr":
		var parts []string
		for _, b := range cv.bytes {
			parts = append(parts, fmt.Sprint(b))
		}
		return "&" + v.GoTy + "{" + strings.Join(parts, ", ") + "}"
	case "strings":
		var parts []string
		for _, s := range cv.strs {
			parts = append(parts, strconv.Quote(s))
		}
		return "[]string{" + strings.Join(parts, ", ") + "}"
	}
	return "nil"
}

func (cv *concreteVal) render() string {
	switch cv.kind {
	case "int":
		return fmt.Sprint(cv.i)
	case "bool":
		return fmt.Sprint(cv.b)
	case "error":
		if cv.isNil {
			return "nil"
		}
		return "non-nil"
	case "string", "bytes", "arrptr":
		return fmt.Sprintf("%x", cv.bytes)
	case "strings":
		return fmt.Sprintf("%q", cv.strs)
	}
	return "?"
}

// tryReplay runs the counterexample of a failed check against the real code.
// It returns whether the violation was confirmed and a record for the replay file.
func tryReplay(cr *CheckResult, repo string) (bool, map[string]interface{}) {
	rec := map[string]interface{}{}
	ri := cr.Check.Replay
	if ri == nil || cr.Status != "failed" || cr.Query == "" {
		return false, nil
	}
	q := &modelQuery{}
	type slot struct {
		lenIdx  int
		elemIdx []int
	}
	ps := make([]slot, len(ri.Params))
	for i := range ri.Params {
		l, e := ri.Params[i].requests(q, replayMaxLen)
		ps[i] = slot{l, e}
	}
	rs := make([]slot, len(ri.Results))
	for i := range ri.Results {
		if ri.Results[i].Kind == "skip" {
			continue
		}
		l, e := ri.Results[i].requests(q, replayMaxLen)
		rs[i] = slot{l, e}
	}
	fs := make([]slot, len(ri.Finals))
	for i := range ri.Finals {
		l, e := ri.Finals[i].requests(q, replayMaxLen)
		fs[i] = slot{l, e}
	}
	vals, err := runModelQuery(cr.Query, cr.Solver, q)
	if err != nil {
		rec["replay_note"] = "model values could not be extracted: " + err.Error()
		return false, rec
	}
	var args []string
	inputs := map[string]string{}
	for i := range ri.Params {
		cv, ok := ri.Params[i].decode(vals, ps[i].lenIdx, ps[i].elemIdx)
		if !ok {
			rec["replay_note"] = "the model's value for parameter " + ri.Params[i].Name + " is outside the replayable size (" + fmt.Sprint(replayMaxLen) + " bytes)"
			return false, rec
		}
		args = append(args, cv.goLiteral(&ri.Params[i]))
		inputs[ri.Params[i].Name] = cv.goLiteral(&ri.Params[i])
	}
	rec["inputs"] = inputs
	expected := map[string]string{}
	for i := range ri.Results {
		if ri.Results[i].Kind == "skip" {
			continue
		}
		if cv, ok := ri.Results[i].decode(vals, rs[i].lenIdx, rs[i].elemIdx); ok {
			expected[fmt.Sprintf("r%d", i)] = cv.render()
		}
	}
	for i := range ri.Finals {
		if cv, ok := ri.Finals[i].decode(vals, fs[i].lenIdx, fs[i].elemIdx); ok {
			expected[fmt.Sprintf("a%d", ri.Finals[i].Index)] = cv.render()
		}
	}
	// the test
	var sb strings.Builder
	fmt.Fprintf(&sb, "package %s\n\nimport (\n\t\"fmt\"\n\t\"testing\"\n)\n\n", ri.PkgName)
	sb.WriteString("// generated by govc from a solver counterexample; calls the real function\n")
	sb.WriteString("func TestGovcReplay(t *testing.T) {\n")
	sb.WriteString("\tdefer func() {\n\t\tif r := recover(); r != nil {\n\t\t\tfmt.Printf(\"GOVC-REPLAY panic %v\\n\", r)\n\t\t}\n\t}()\n")
	for i, a := range args {
		fmt.Fprintf(&sb, "\ta%d := %s\n", i, a)
	}
	var lhs, call []string
	for i := range args {
		call = append(call, fmt.Sprintf("a%d", i))
	}
	for i := range ri.Results {
		lhs = append(lhs, fmt.Sprintf("r%d", i))
	}
	if len(lhs) > 0 {
		fmt.Fprintf(&sb, "\t%s := %s(%s)\n", strings.Join(lhs, ", "), ri.Func, strings.Join(call, ", "))
	} else {
		fmt.Fprintf(&sb, "\t%s(%s)\n", ri.Func, strings.Join(call, ", "))
	}
	for i := range ri.Results {
		switch ri.Results[i].Kind {
		case "int", "bool":
			fmt.Fprintf(&sb, "\tfmt.Printf(\"GOVC-REPLAY r%d %%v\\n\", r%d)\n", i, i)
		case "string", "bytes":
			fmt.Fprintf(&sb, "\tfmt.Printf(\"GOVC-REPLAY r%d %%x\\n\", r%d)\n", i, i)
		case "error":
			fmt.Fprintf(&sb, "\tif r%d == nil {\n\t\tfmt.Printf(\"GOVC-REPLAY r%d nil\\n\")\n\t} else {\n\t\tfmt.Printf(\"GOVC-REPLAY r%d non-nil\\n\")\n\t}\n", i, i, i)
		default:
			fmt.Fprintf(&sb, "\t_ = r%d\n", i)
		}
	}
	for i := range args {
		if ri.Params[i].Kind == "arrptr" {
			fmt.Fprintf(&sb, "\tfmt.Printf(\"GOVC-REPLAY a%d %%x\\n\", a%d[:])\n", i, i)
		}
	}
	sb.WriteString("\tfmt.Println(\"GOVC-REPLAY done\")\n}\n")
	rec["replay_test"] = sb.String()
	tmp, err := os.MkdirTemp("", "govc-replay-")
	if err != nil {
		return false, rec
	}
	defer os.RemoveAll(tmp)
	tf := filepath.Join(tmp, "replay_test.go")
	os.WriteFile(tf, []byte(sb.String()), 0644)
	dest := filepath.Join(repo, ri.Dir, "zz_govc_replay_test.go")
	ov, _ := json.Marshal(map[string]interface{}{"Replace": map[string]string{dest: tf}})
	ovf := filepath.Join(tmp, "ov.json")
	os.WriteFile(ovf, ov, 0644)
	ctx, cancel := context.WithTimeout(context.Background(), 120*time.Second)
	defer cancel()
	cmd := exec.CommandContext(ctx, "go", "test", "-overlay", ovf, "-vet=off", "-v", "-count=1", "-timeout", "60s", "-run", "^TestGovcReplay$", ".")
	cmd.Dir = filepath.Join(repo, ri.Dir)
	cmd.Env = append(os.Environ(), "GOFLAGS=-mod=mod", "GOPROXY=off", "GOSUMDB=off", "GOTOOLCHAIN=local")
	var out bytes.Buffer
	cmd.Stdout = &out
	cmd.Stderr = &out
	cmd.Run()
	o := out.String()
	rec["replay_output"] = tail(o, 1500)
	observed := map[string]string{}
	panicked := ""
	for _, line := range strings.Split(o, "\n") {
		if strings.HasPrefix(line, "GOVC-REPLAY panic ") {
			panicked = strings.TrimPrefix(line, "GOVC-REPLAY panic ")
			continue
		}
		if strings.HasPrefix(line, "GOVC-REPLAY r") || strings.HasPrefix(line, "GOVC-REPLAY a") {
			f := strings.SplitN(strings.TrimPrefix(line, "GOVC-REPLAY "), " ", 2)
			v := ""
			if len(f) > 1 {
				v = f[1]
			}
			observed[f[0]] = v
		}
	}
	if !strings.Contains(o, "GOVC-REPLAY") {
		rec["replay_note"] = "the replay test did not run (build failure?)"
		return false, rec
	}
	if cr.Check.Class == "safety" {
		if panicked != "" {
			rec["replay_verdict"] = "the real function panics on the model's inputs: " + panicked
			return true, rec
		}
		rec["replay_note"] = "the real function did not panic on the model's inputs"
		return false, rec
	}
	if panicked != "" {
		rec["replay_note"] = "the real function panicked on the model's inputs: " + panicked
		return false, rec
	}
	if len(expected) == 0 {
		rec["replay_note"] = "no result of a comparable type"
		return false, rec
	}
	obs := map[string]string{}
	match := true
	for k, e := range expected {
		obs[k] = observed[k]
		if observed[k] != e {
			match = false
		}
	}
	rec["model_results"] = expected
	rec["observed_results"] = obs
	if match {
		rec["replay_verdict"] = "the real function returns exactly the values of the solver's counterexample on its inputs; those values violate the obligation"
		return true, rec
	}
	rec["replay_note"] = "the real function's results differ from the model's (the counterexample lives in a loop-cut or abstracted state)"
	return false, rec
}

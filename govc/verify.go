package main

import (
	"time"
	"strings"
	"fmt"
	"strconv"
	"go/types"
	"math/big"

	"golang.org/x/tools/go/ssa"
)

func newState(ex *Exec) *State {
	return &State{regs: map[ssa.Value]Val{}, cells: map[*Cell]Val{}, heaps: map[string]Term{}, hver: map[string]int{},
		decl: map[string]bool{}, lits: map[string]string{}, iters: map[ssa.Value]Term{}, variant: map[string]Term{},
		inLoop: map[string]bool{}, callN: map[string]int{}, ex: ex}
}

func (ex *Exec) symParam(st *State, name string, t types.Type, recv bool) Val {
	sym := "p_" + mangle(name)
	switch sortOf(t) {
	case SortSlice:
		rg := mkTerm(sym+".rg", SortInt)
		off := mkTerm(sym+".off", SortInt)
		ln := mkTerm(sym+".len", SortInt)
		cp := mkTerm(sym+".cap", SortInt)
		for _, x := range []Term{rg, off, ln, cp} {
			st.declare(x.S, SortInt)
		}
		s := MkSlice(rg, off, ln, cp)
		st.assume(sliceInv(s))
		st.assume(mkTerm("(isold "+rg.S+")", SortBool))
		st.known(rg)
		return TV(s, t)
	}
	st.declare(sym, sortOf(t))
	x := mkTerm(sym, sortOf(t))
	ex.assumeTypeInv(st, x, t)
	switch x.Sort {
	case SortInt:
		if _, ok := t.Underlying().(*types.Pointer); ok {
			st.assume(mkTerm("(isold "+x.S+")", SortBool))
			st.assume(Ge(x, IntLit(0)))
			st.known(x)
			if recv {
				st.assume(Gt(x, IntLit(0)))
			}
		}
		if _, ok := t.Underlying().(*types.Signature); ok {
			st.assume(mkTerm("(isold "+x.S+")", SortBool))
		}
	case SortIface:
		st.assume(mkTerm("(isold (i.val "+x.S+"))", SortBool))
		st.known(IfVal(x))
	}
	return TV(x, t)
}

// specialise applies requires-conjuncts of the forms  p == <int>  and
// len(p) == <int>  by substitution, so that the executor's partial evaluation
// sees concrete values (loops with concrete trip counts unroll exactly).
func (ex *Exec) specialise(st *State, e SExpr) {
	switch x := e.(type) {
	case *SBin:
		if x.Op == "&&" {
			ex.specialise(st, x.X)
			ex.specialise(st, x.Y)
			return
		}
		if x.Op != "==" {
			return
		}
		lit, ok := x.Y.(*SInt)
		if !ok {
			if b, ok := x.Y.(*SBool); ok {
				if id, ok := x.X.(*SIdent); ok {
					if p, ok := ex.topParams[id.Name]; ok && p.Kind == VTerm && p.T.Sort == SortBool {
						ex.topParams[id.Name] = TV(BoolLit(b.V), p.Ty)
					}
				}
			}
			return
		}
		n, ok := new(big.Int).SetString(lit.V, 0)
		if !ok {
			return
		}
		switch l := x.X.(type) {
		case *SIdent:
			if p, ok := ex.topParams[l.Name]; ok && p.Kind == VTerm && p.T.Sort == SortInt {
				ex.topParams[l.Name] = TV(BigLit(n), p.Ty)
			}
		case *SCall:
			if l.Fn == "len" && len(l.Args) == 1 {
				if id, ok := l.Args[0].(*SIdent); ok {
					if p, ok := ex.topParams[id.Name]; ok && p.Kind == VTerm {
						switch p.T.Sort {
						case SortSlice:
							s := MkSlice(SlRg(p.T), SlOff(p.T), BigLit(n), SlCap(p.T))
							st.assume(Le(BigLit(n), SlCap(p.T)))
							ex.topParams[id.Name] = TV(s, p.Ty)
						}
					}
				}
			}
		}
	case *SIdent:
		if p, ok := ex.topParams[x.Name]; ok && p.Kind == VTerm && p.T.Sort == SortBool {
			ex.topParams[x.Name] = TV(TrueT, p.Ty)
		}
	case *SUn:
		if x.Op == "!" {
			if id, ok := x.X.(*SIdent); ok {
				if p, ok := ex.topParams[id.Name]; ok && p.Kind == VTerm && p.T.Sort == SortBool {
					ex.topParams[id.Name] = TV(FalseT, p.Ty)
				}
			}
		}
	}
}

// verifySpecLemma proves a statement over bounded integers from its
// requires to its ensures (no code involved).
func (ex *Exec) verifySpecLemma(c *Contract, pkg *types.Package, anyFn *ssa.Function) {
	ex.top, ex.topC = anyFn, c
	ex.lemmaKey = c.Key
	st := newState(ex)
	st.declare("alloc0", SortInt)
	st.allocCtr = mkTerm("alloc0", SortInt)
	if c.Mode == "bvbridge" {
		st.emit(";;mode bvbridge")
	}
	ex.topParams = map[string]Val{}
	for _, sv := range c.SpecVars {
		sym := "l_" + mangle(sv[0])
		st.declare(sym, SortInt)
		x := mkTerm(sym, SortInt)
		w, _ := strconv.Atoi(sv[1])
		if w <= 0 {
			w = 64
		}
		st.assume(And(Le(IntLit(0), x), Lt(x, BigLit(pow2(w)))))
		ex.topParams[sv[0]] = TV(x, types.Typ[types.Int])
	}
	ex.entry = st.snapshot()
	fr0 := &Frame{fn: anyFn, contract: c, depth: 0, params: ex.topParams}
	env := &Env{ex: ex, st: st, old: ex.entry, vars: map[string]Val{}, fr: fr0, pkg: pkg}
	for _, r := range c.Requires {
		t, err := ex.evalSpecBool(r.Expr, env)
		if err != nil {
			ex.errors = append(ex.errors, fmt.Sprintf("requires %s: %v", r.Label, err))
			continue
		}
		st.assume(t)
	}
	ex.cover(st, "pre")
	ex.exitPaths++
	ex.cover(st, "exit")
	for _, e := range c.Ensures {
		if c.Mode == "bv" {
			// pure QF_BV statement: translated directly, no Int/array context
			raw, err := bvLemmaScript(ex.db, c, e.Expr)
			if err != nil {
				ex.errors = append(ex.errors, fmt.Sprintf("ensures %s: %v", e.Label, err))
				continue
			}
			if !ex.active(e.Props) {
				continue
			}
			props := e.Props
			if len(props) == 0 && ex.prop != "" {
				props = []string{ex.prop}
			}
			ck := &Check{Name: fmt.Sprintf("%s/lemma#%s", c.Key, e.Label), Class: "lemma", Fn: c.Key, Props: props, Goal: "false", Info: e.Text + "  (QF_BV)", Src: e.Src, Raw: raw, TimeoutMs: c.TimeoutMs}
			st.script = append(st.script, Cmd{Check: ck})
			continue
		}
		t, err := ex.evalSpecBool(e.Expr, env)
		if err != nil {
			ex.errors = append(ex.errors, fmt.Sprintf("ensures %s: %v", e.Label, err))
			continue
		}
		ex.check(st, fr0, "lemma", e.Label, t, e.Props, e.Text, e.Src)
	}
	ex.endPath(st, "lemma")
}

func (ex *Exec) verifyFunc(fn *ssa.Function, c *Contract) {
	ex.top, ex.topC = fn, c
	ex.started = time.Now()
	defer func() {
		if r := recover(); r != nil {
			if _, ok := r.(termTooBig); ok {
				ex.errors = append(ex.errors, fmt.Sprintf("%s: term size budget exceeded (a loop needs an invariant?)", funcKey(fn)))
				ex.aborted = true
				return
			}
			panic(r)
		}
	}()
	frameStack = nil
	st := newState(ex)
	st.declare("alloc0", SortInt)
	st.allocCtr = mkTerm("alloc0", SortInt)
	st.assume(Ge(st.allocCtr, IntLit(1)))
	if c.Mode == "bvbridge" {
		st.emit(";;mode bvbridge")
	}
	ex.topParams = map[string]Val{}
	hasRecv := fn.Signature.Recv() != nil
	for i, p := range fn.Params {
		name := p.Name()
		if i < len(c.Params) && c.Params[i] != "" && c.Params[i] != "_" {
			name = c.Params[i]
		}
		ex.topParams[name] = ex.symParam(st, name, p.Type(), hasRecv && i == 0)
		if name != p.Name() {
			ex.topParams[p.Name()] = ex.topParams[name]
		}
	}
	// closures verified on their own: captured variables are symbolic cells
	var topBinds []Val
	for _, fv := range fn.FreeVars {
		et := fv.Type()
		if e, ok := derefPtr(fv.Type()); ok {
			et = e
		}
		v := ex.symParam(st, fv.Name(), et, false)
		if pt, ok := et.Underlying().(*types.Pointer); ok {
			if _, isStruct := pt.Elem().Underlying().(*types.Struct); isStruct {
				st.assume(Gt(v.T, IntLit(0))) // captured receivers are non-nil
			}
		}
		st.ncell++
		c := &Cell{ID: st.ncell, Name: fv.Name(), Ty: et}
		st.cells[c] = v
		topBinds = append(topBinds, Val{Kind: VCellPtr, Cell: c, Ty: fv.Type()})
		ex.topParams[fv.Name()] = v
	}
	for _, r := range c.Requires {
		ex.specialise(st, r.Expr)
	}
	var args []Val
	for i, p := range fn.Params {
		name := p.Name()
		if i < len(c.Params) && c.Params[i] != "" && c.Params[i] != "_" {
			name = c.Params[i]
		}
		args = append(args, ex.topParams[name])
	}
	for _, t := range sortedKeys(ex.tracked(c)) {
		// declare the execution counters up front: they are ordinary ghost state
		i := strings.LastIndex(t, "#")
		k, _ := strconv.Atoi(t[i+1:])
		st.heap(siteHeap(fn.String(), t[:i], k), SortInt)
	}
	for _, t := range sortedKeys(ex.errSites()) {
		i := strings.LastIndex(t, "#")
		k, _ := strconv.Atoi(t[i+1:])
		st.setHeap(siteErrHeap(fn.String(), t[:i], k), NilIface)
	}
	ex.replayBase, ex.replayCur = ex.replayBaseFor(st, fn, c), nil
	ex.entry = st.snapshot()
	fr0 := &Frame{fn: fn, contract: c, depth: 0, params: ex.topParams}
	env := &Env{ex: ex, st: st, old: ex.entry, vars: map[string]Val{}, fr: fr0, pkg: ex.pkgOfFrame(fr0)}
	for _, r := range c.Requires {
		t, err := ex.evalSpecBool(r.Expr, env)
		if err != nil {
			ex.errors = append(ex.errors, fmt.Sprintf("requires %s: %v", r.Label, err))
			continue
		}
		st.assume(t)
	}
	ex.cover(st, "pre")
	var fdecl *frameDecl
	// the modifies clause is CHECKED (frame obligations) unless the contract says
	// `frame assumed <reason>`, which is listed among the assumptions
	if c.HasMod && c.FrameAssumed == "" {
		fd, err := ex.parseFrame(st, c, env)
		if err != nil {
			ex.errors = append(ex.errors, fmt.Sprintf("modifies clause: %v", err))
		} else {
			fdecl = fd
		}
	}
	ex.topFrame = fdecl
	sig := fn.Signature
	ex.runFunc(st, fn, c, args, topBinds, 0, func(st2 *State, rets []Val) {
		ex.exitPaths++
		ex.cover(st2, "exit")
		post := &Env{ex: ex, st: st2, old: ex.entry, vars: map[string]Val{}, fr: fr0, pkg: env.pkg, postLocals: true}
		// captured variables of a closure: their value at the return
		for i, fv := range fn.FreeVars {
			if i < len(topBinds) && topBinds[i].Kind == VCellPtr {
				post.vars[fv.Name()] = st2.cells[topBinds[i].Cell]
				if post.oldVars == nil {
					post.oldVars = map[string]Val{}
				}
				post.oldVars[fv.Name()] = ex.topParams[fv.Name()]
			}
		}
		for i, r := range rets {
			if i < len(c.Results) {
				post.vars[c.Results[i]] = r
			}
			if i < sig.Results().Len() && sig.Results().At(i).Name() != "" {
				post.vars[sig.Results().At(i).Name()] = r
			}
			post.vars[fmt.Sprintf("result%d", i)] = r
			if i == 0 {
				post.vars["result"] = r
			}
		}
		ex.replayCur = ex.replayBase.withResults(ex, st2, sig, rets)
		if c.NoReturn {
			ex.check(st2, fr0, "post", "noreturn", FalseT, c.NoReturnProps, "the function never returns to its caller", "")
		}
		for _, e := range c.Ensures {
			if e.Kind == "assumes" {
				continue
			}
			t, err := ex.evalSpecBool(e.Expr, post)
			if err != nil {
				ex.errors = append(ex.errors, fmt.Sprintf("ensures %s: %v", e.Label, err))
				continue
			}
			n0 := len(st2.script)
			ex.check(st2, fr0, "post", e.Label, t, e.Props, e.Text, e.Src)
			if len(st2.script) > n0 && st2.script[len(st2.script)-1].Check != nil {
				// postconditions of one exit are decided independently
				st2.script[len(st2.script)-1].Check.NoAssume = true
			}
		}
		ex.replayCur = nil
		// `fresh x [when c]`: callers assume the result was allocated by this
		// call, so it is an obligation of the body (allocated at or after alloc0)
		for i, fc := range c.Fresh {
			v, err := ex.evalSpec(fc.Expr, post)
			if err != nil {
				ex.errors = append(ex.errors, fmt.Sprintf("fresh %s: %v", fc.Text, err))
				continue
			}
			cond := TrueT
			if fc.When != nil {
				cc, err := ex.evalSpecBool(fc.When, post)
				if err != nil {
					ex.errors = append(ex.errors, fmt.Sprintf("fresh %s: %v", fc.Text, err))
					continue
				}
				cond = cc
			}
			id, err := ex.idOfErr(v)
			if err != nil {
				ex.errors = append(ex.errors, fmt.Sprintf("fresh %s: %v", fc.Text, err))
				continue
			}
			n0 := len(st2.script)
			ex.check(st2, fr0, "post", fmt.Sprintf("fresh%d", i+1), Implies(cond, And(Gt(id, IntLit(0)), Or(Ge(id, mkTerm("alloc0", SortInt)), Not(mkTerm("(isold "+id.S+")", SortBool))))), fc.Props, "fresh "+fc.Text+": the value is allocated during the call", c.File)
			if len(st2.script) > n0 && st2.script[len(st2.script)-1].Check != nil {
				st2.script[len(st2.script)-1].Check.NoAssume = true
			}
		}
		ex.frameChecks(st2, fr0, fdecl, c.File)
		ex.endPath(st2, "ret")
	})
	// a `call f#k requires ...` clause that matched no call site on any explored
	// path is a contract that no longer binds to the code, never a success
	if !ex.aborted {
		for _, cr := range c.CallReqs {
			if cr.CallN != 0 && !ex.callReqHit[cr] && ex.active(cr.Props) {
				ex.errors = append(ex.errors, fmt.Sprintf("%s: call-site clause `call %s#%d requires %s` binds to no call site", funcKey(fn), cr.Callee, cr.CallN, cr.Text))
			}
		}
	}
}

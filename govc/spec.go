package main

// Contract files and the specification expression language.
//
// Contract text lives in comment lines starting with "//@" (in-repo files
// /repo/<pkg>/zz_contracts_verif.go, guarded by the build tag verif) and in
// /verif/contracts/lib/*.spec (assumed contracts of library functions, same
// syntax without the comment marker).

import (
	"fmt"
	"math/big"
	"os"
	"path/filepath"
	"sort"
	"strconv"
	"strings"
)

// ---------------------------------------------------------------- AST

type SExpr interface{}

type SIdent struct{ Name string }
type SInt struct{ V string }
type SStr struct{ V string }
type SBool struct{ V bool }
type SNil struct{}
type SBin struct {
	Op   string
	X, Y SExpr
}
type SUn struct {
	Op string
	X  SExpr
}
type SCall struct {
	Fn   string
	Args []SExpr
}
type SSel struct {
	X   SExpr
	Sel string
}
type SIndex struct{ X, I SExpr }
type SSlice struct{ X, Lo, Hi SExpr }
type SQuant struct {
	Forall bool
	Var    string
	Lo, Hi SExpr
	Body   SExpr
}
type SCond struct{ C, A, B SExpr }

// ---------------------------------------------------------------- lexer

type tok struct {
	k string // "id","int","str","op","eof"
	s string
}

func lexSpec(src string) ([]tok, error) {
	var out []tok
	i := 0
	ops := []string{"<==>", "==>", "::", "..", "==", "!=", "<=", ">=", "&&", "||", "<<", ">>", "&^",
		"<", ">", "!", "+", "-", "*", "/", "%", "&", "|", "^", "(", ")", "[", "]", ",", ".", ":", "?"}
	for i < len(src) {
		c := src[i]
		switch {
		case c == ' ' || c == '\t':
			i++
		case c == '"':
			j := i + 1
			for j < len(src) && src[j] != '"' {
				if src[j] == '\\' {
					j++
				}
				j++
			}
			if j >= len(src) {
				return nil, fmt.Errorf("unterminated string in %q", src)
			}
			s, err := strconv.Unquote(src[i : j+1])
			if err != nil {
				return nil, fmt.Errorf("bad string %s: %v", src[i:j+1], err)
			}
			out = append(out, tok{"str", s})
			i = j + 1
		case c >= '0' && c <= '9':
			j := i
			for j < len(src) && (isAlnum(src[j])) {
				j++
			}
			out = append(out, tok{"int", src[i:j]})
			i = j
		case isIdentStart(c):
			j := i + 1
			for j < len(src) && (isAlnum(src[j]) || src[j] == '_' || src[j] == '$') {
				j++
			}
			out = append(out, tok{"id", src[i:j]})
			i = j
		case c == '\\': // \result etc
			j := i + 1
			for j < len(src) && isAlnum(src[j]) {
				j++
			}
			out = append(out, tok{"id", src[i:j]})
			i = j
		default:
			matched := false
			for _, op := range ops {
				if strings.HasPrefix(src[i:], op) {
					out = append(out, tok{"op", op})
					i += len(op)
					matched = true
					break
				}
			}
			if !matched {
				return nil, fmt.Errorf("unexpected character %q in %q", c, src)
			}
		}
	}
	out = append(out, tok{"eof", ""})
	return out, nil
}

func isAlnum(c byte) bool {
	return c >= '0' && c <= '9' || c >= 'a' && c <= 'z' || c >= 'A' && c <= 'Z'
}
func isIdentStart(c byte) bool {
	return c >= 'a' && c <= 'z' || c >= 'A' && c <= 'Z' || c == '_' || c == '$'
}

// ---------------------------------------------------------------- parser

type specParser struct {
	toks []tok
	p    int
	src  string
}

func parseSpecExpr(src string) (SExpr, error) {
	toks, err := lexSpec(src)
	if err != nil {
		return nil, err
	}
	ps := &specParser{toks: toks, src: src}
	var e SExpr
	func() {
		defer func() {
			if r := recover(); r != nil {
				if pe, ok := r.(parseErr); ok {
					err = fmt.Errorf("%s in %q", string(pe), src)
					return
				}
				panic(r)
			}
		}()
		e = ps.parseIff()
		if ps.peek().k != "eof" {
			ps.fail("unexpected token " + ps.peek().s)
		}
	}()
	return e, err
}

type parseErr string

func (ps *specParser) fail(msg string) { panic(parseErr(msg)) }
func (ps *specParser) peek() tok       { return ps.toks[ps.p] }
func (ps *specParser) next() tok       { t := ps.toks[ps.p]; ps.p++; return t }
func (ps *specParser) isOp(s string) bool {
	t := ps.peek()
	return t.k == "op" && t.s == s
}
func (ps *specParser) accept(s string) bool {
	if ps.isOp(s) {
		ps.p++
		return true
	}
	return false
}
func (ps *specParser) expect(s string) {
	if !ps.accept(s) {
		ps.fail("expected " + s + " got " + ps.peek().s)
	}
}

func (ps *specParser) parseIff() SExpr {
	x := ps.parseImp()
	for ps.accept("<==>") {
		y := ps.parseImp()
		x = &SBin{"<==>", x, y}
	}
	return x
}
func (ps *specParser) parseImp() SExpr {
	x := ps.parseCond()
	if ps.accept("==>") {
		y := ps.parseImp()
		return &SBin{"==>", x, y}
	}
	return x
}
func (ps *specParser) parseCond() SExpr {
	c := ps.parseOr()
	if ps.accept("?") {
		a := ps.parseCond()
		ps.expect(":")
		b := ps.parseCond()
		return &SCond{c, a, b}
	}
	return c
}
func (ps *specParser) parseOr() SExpr {
	x := ps.parseAnd()
	for ps.accept("||") {
		x = &SBin{"||", x, ps.parseAnd()}
	}
	return x
}
func (ps *specParser) parseAnd() SExpr {
	x := ps.parseCmp()
	for ps.accept("&&") {
		x = &SBin{"&&", x, ps.parseCmp()}
	}
	return x
}
func (ps *specParser) parseCmp() SExpr {
	x := ps.parseBitOr()
	for {
		t := ps.peek()
		if t.k == "op" && (t.s == "==" || t.s == "!=" || t.s == "<" || t.s == "<=" || t.s == ">" || t.s == ">=") {
			ps.p++
			y := ps.parseBitOr()
			x = &SBin{t.s, x, y}
			// chained comparisons a <= b < c
			t2 := ps.peek()
			if t2.k == "op" && (t2.s == "<" || t2.s == "<=" || t2.s == ">" || t2.s == ">=") {
				ps.p++
				z := ps.parseBitOr()
				x = &SBin{"&&", x, &SBin{t2.s, y, z}}
			}
			continue
		}
		return x
	}
}
func (ps *specParser) parseBitOr() SExpr {
	x := ps.parseAdd()
	for {
		if ps.isOp("|") || ps.isOp("^") {
			op := ps.next().s
			x = &SBin{op, x, ps.parseAdd()}
			continue
		}
		return x
	}
}
func (ps *specParser) parseAdd() SExpr {
	x := ps.parseMul()
	for {
		if ps.isOp("+") || ps.isOp("-") {
			op := ps.next().s
			x = &SBin{op, x, ps.parseMul()}
			continue
		}
		return x
	}
}
func (ps *specParser) parseMul() SExpr {
	x := ps.parseUnary()
	for {
		if ps.isOp("*") || ps.isOp("/") || ps.isOp("%") || ps.isOp("&") || ps.isOp("<<") || ps.isOp(">>") {
			op := ps.next().s
			x = &SBin{op, x, ps.parseUnary()}
			continue
		}
		return x
	}
}
func (ps *specParser) parseUnary() SExpr {
	if ps.accept("!") {
		return &SUn{"!", ps.parseUnary()}
	}
	if ps.accept("-") {
		return &SUn{"-", ps.parseUnary()}
	}
	if ps.accept("*") {
		return &SUn{"*", ps.parseUnary()}
	}
	return ps.parsePostfix()
}
func (ps *specParser) parsePostfix() SExpr {
	x := ps.parsePrimary()
	for {
		switch {
		case ps.accept("."):
			t := ps.next()
			if t.k != "id" {
				ps.fail("expected identifier after '.'")
			}
			x = &SSel{x, t.s}
		case ps.accept("["):
			if ps.accept(":") {
				var hi SExpr
				if !ps.isOp("]") {
					hi = ps.parseCond()
				}
				ps.expect("]")
				x = &SSlice{x, nil, hi}
				continue
			}
			i := ps.parseCond()
			if ps.accept(":") {
				var hi SExpr
				if !ps.isOp("]") {
					hi = ps.parseCond()
				}
				ps.expect("]")
				x = &SSlice{x, i, hi}
				continue
			}
			ps.expect("]")
			x = &SIndex{x, i}
		case ps.isOp("("):
			id, ok := x.(*SIdent)
			if !ok {
				// qualified spec call pkg.f(...) not supported
				ps.fail("call of non-identifier")
			}
			ps.p++
			var args []SExpr
			if !ps.isOp(")") {
				for {
					args = append(args, ps.parseIff())
					if !ps.accept(",") {
						break
					}
				}
			}
			ps.expect(")")
			x = &SCall{id.Name, args}
		default:
			return x
		}
	}
}
func (ps *specParser) parsePrimary() SExpr {
	t := ps.next()
	switch t.k {
	case "int":
		return &SInt{t.s}
	case "str":
		return &SStr{t.s}
	case "id":
		switch t.s {
		case "true":
			return &SBool{true}
		case "false":
			return &SBool{false}
		case "nil":
			return &SNil{}
		case "forall", "exists":
			v := ps.next()
			if v.k != "id" {
				ps.fail("expected bound variable")
			}
			in := ps.next()
			if in.k != "id" || in.s != "in" {
				ps.fail("expected 'in'")
			}
			lo := ps.parseAdd()
			ps.expect("..")
			hi := ps.parseAdd()
			ps.expect("::")
			body := ps.parseIff()
			return &SQuant{t.s == "forall", v.s, lo, hi, body}
		}
		return &SIdent{t.s}
	case "op":
		if t.s == "(" {
			e := ps.parseIff()
			ps.expect(")")
			return e
		}
	}
	ps.fail("unexpected token " + t.s)
	return nil
}

// ---------------------------------------------------------------- contracts

type Clause struct {
	Kind  string // requires ensures invariant decreases assert callreq
	Label string
	Text  string
	Expr  SExpr
	Props []string
	Src   string // file:line
	// for loop clauses
	Loop int
	// for call-site obligations
	Callee string
	CallN  int
}

type LoopSpec struct {
	Unroll     bool
	Invariants []*Clause
	Decreases  *Clause
}

type Contract struct {
	Key        string // canonical function key (ssa Function.String())
	Params     []string
	Results    []string
	Mode       string
	Requires   []*Clause
	Ensures    []*Clause
	Modifies   []string // lvalue texts; nil = none given
	HasMod     bool
	FrameAssumed string // `frame assumed <reason>`: the modifies clause is NOT checked against the body
	Loops      map[int]*LoopSpec
	Inline     map[string]bool
	Pure       map[string]bool // pure function-valued params
	CallReqs   []*Clause
	MayPanic   bool
	Trusted    bool // lib contract (assumed)
	IsPure     bool // function is pure: results modelled as uninterpreted functions
	Props      map[string]bool
	File       string
	Lemma      bool
	NoSafety   bool
	PathCap    int
	Uses       []string // theory groups
	GhostDecls []string
	Fresh      []*FreshClause
	SpecVars   [][2]string // speclemma: variable name, bit width
	NoReturn   bool        // the function never returns (exits the process)
	NoReturnProps []string
	TimeoutMs  int
}

type FreshClause struct {
	Props []string
	Expr SExpr
	When SExpr
	Text string
}

type StateFn struct {
	Name   string
	Params []string
	Result string
	Reads  []string
}

type PredDef struct {
	Name   string
	Params []string
	Body   SExpr
	Text   string
}

type GhostDecl struct {
	Name string // $name
	Sort string
	Kind string // "field" or "global"
}

type SpecFn struct {
	Name   string
	Params []string // sorts
	Result string
}

type SpecDB struct {
	Contracts map[string]*Contract
	Preds     map[string]*PredDef
	Ghosts    map[string]*GhostDecl
	SpecFns   map[string]*SpecFn
	SMT       []string          // raw SMT prelude lines (axioms), in order
	Consts    map[string]string // spec constants name -> expr text
	Trusted   []string          // names of assumed contracts
	StateFns  map[string]*StateFn
	GlobalFacts map[string][]SExpr
	GlobalInits []*GlobalInit
	MethodSets  []*MethodSetDecl
	CallerDecls []*CallersDecl
	Defines map[string]*PredDef // spec functions with a definition, also emitted as SMT define-fun
	DefineOrder []string
}

// CallersDecl pins the complete set of functions of this module (tests
// excluded) that contain a static call to Callee.
type CallersDecl struct {
	Callee  string // qualified function name, e.g. filippo.io/age/plugin.NewIdentity
	Callers []string
	Props   []string
	Src     string
}

// MethodSetDecl pins the complete method set of a pointer type.
type MethodSetDecl struct {
	Pkg, Type string
	Methods   []string
	Props     []string
	Src       string
}

type GlobalInit struct {
	Name  string // qualified
	Lit   string
	Ints  []string // initints: expected integer elements (decimal)
	IsInts bool
	IsSplit bool   // initsplit: X = strings.Split(<const>, <const sep>)
	SplitSep string
	SplitN   int
	Props []string
	Src   string
}

func NewSpecDB() *SpecDB {
	return &SpecDB{Contracts: map[string]*Contract{}, Preds: map[string]*PredDef{}, Ghosts: map[string]*GhostDecl{},
		SpecFns: map[string]*SpecFn{}, Consts: map[string]string{}, StateFns: map[string]*StateFn{}, GlobalFacts: map[string][]SExpr{}, Defines: map[string]*PredDef{}}
}

// splitTags strips a trailing "[C01 C02]" tag group.
func splitTags(s string) (string, []string) {
	s = strings.TrimSpace(s)
	if strings.HasSuffix(s, "]") {
		i := strings.LastIndex(s, "[")
		if i >= 0 {
			inner := strings.TrimSpace(s[i+1 : len(s)-1])
			ok := inner != ""
			var tags []string
			for _, f := range strings.Fields(inner) {
				if len(f) >= 3 && f[0] == 'C' && isDigits(f[1:]) {
					tags = append(tags, f)
				} else {
					ok = false
				}
			}
			if ok {
				return strings.TrimSpace(s[:i]), tags
			}
		}
	}
	return s, nil
}

func isDigits(s string) bool {
	if s == "" {
		return false
	}
	for _, c := range s {
		if c < '0' || c > '9' {
			return false
		}
	}
	return true
}

// readSpecLines extracts logical spec lines from a file. In .go files only
// "//@" comment lines count. A trailing backslash continues the line.
func readSpecLines(path string) ([]string, []int, error) {
	data, err := os.ReadFile(path)
	if err != nil {
		return nil, nil, err
	}
	isGo := strings.HasSuffix(path, ".go")
	var lines []string
	var nums []int
	cur := ""
	curN := 0
	for n, raw := range strings.Split(string(data), "\n") {
		l := strings.TrimSpace(raw)
		if isGo {
			if !strings.HasPrefix(l, "//@") {
				continue
			}
			l = strings.TrimSpace(l[3:])
		}
		if i := strings.Index(l, " -- "); i >= 0 {
			l = strings.TrimSpace(l[:i])
		}
		if strings.HasPrefix(l, "--") || l == "" || strings.HasPrefix(l, "#") {
			continue
		}
		cont := strings.HasSuffix(l, "\\")
		if cont {
			l = strings.TrimSpace(l[:len(l)-1])
		}
		if cur == "" {
			curN = n + 1
			cur = l
		} else {
			cur += " " + l
		}
		if !cont {
			lines = append(lines, cur)
			nums = append(nums, curN)
			cur = ""
		}
	}
	if cur != "" {
		lines = append(lines, cur)
		nums = append(nums, curN)
	}
	return lines, nums, nil
}

// LoadSpecFile parses one contract file. pkgPath is the import path used to
// qualify in-repo function keys ("" for lib files, whose keys are full).
func (db *SpecDB) LoadSpecFile(path, pkgPath string, trusted bool) error {
	lines, nums, err := readSpecLines(path)
	if err != nil {
		return err
	}
	var cur *Contract
	for li, l := range lines {
		src := fmt.Sprintf("%s:%d", filepath.Base(path), nums[li])
		word, rest := l, ""
		if i := strings.IndexAny(l, " \t"); i >= 0 {
			word, rest = l[:i], strings.TrimSpace(l[i+1:])
		}
		fail := func(e error) error { return fmt.Errorf("%s: %v", src, e) }
		label := ""
		if i := strings.Index(word, "#"); i >= 0 {
			label = word[i+1:]
			word = word[:i]
		}
		switch word {
		case "func", "lemma":
			c, err := parseFuncHeader(rest, pkgPath)
			if err != nil {
				return fail(err)
			}
			c.Trusted = trusted
			c.File = src
			c.Lemma = word == "lemma"
			if old, ok := db.Contracts[c.Key]; ok {
				return fail(fmt.Errorf("duplicate contract for %s (first at %s)", c.Key, old.File))
			}
			db.Contracts[c.Key] = c
			if trusted {
				db.Trusted = append(db.Trusted, c.Key)
			}
			cur = c
		case "speclemma":
			// speclemma name(x:32, v:8): a statement over integers of the given
			// bit widths, proved from requires to ensures without any code
			j := strings.Index(rest, "(")
			k := strings.LastIndex(rest, ")")
			if j < 0 || k < j {
				return fail(fmt.Errorf("bad speclemma header"))
			}
			name := strings.TrimSpace(rest[:j])
			c := &Contract{Loops: map[int]*LoopSpec{}, Inline: map[string]bool{}, Pure: map[string]bool{}, Props: map[string]bool{}}
			c.Key = pkgPath + ".speclemma." + name
			c.Lemma = true
			c.File = src
			for _, v := range strings.Split(rest[j+1:k], ",") {
				v = strings.TrimSpace(v)
				if v == "" {
					continue
				}
				nv := strings.SplitN(v, ":", 2)
				w := "64"
				if len(nv) == 2 {
					w = strings.TrimSpace(nv[1])
				}
				c.SpecVars = append(c.SpecVars, [2]string{strings.TrimSpace(nv[0]), w})
			}
			db.Contracts[c.Key] = c
			cur = c
		case "define":
			// define name(a, b) := integer expression over integer parameters
			i := strings.Index(rest, ":=")
			if i < 0 {
				return fail(fmt.Errorf("define needs :="))
			}
			head := strings.TrimSpace(rest[:i])
			body := strings.TrimSpace(rest[i+2:])
			j := strings.Index(head, "(")
			if j < 0 || !strings.HasSuffix(head, ")") {
				return fail(fmt.Errorf("bad define header %q", head))
			}
			name := strings.TrimSpace(head[:j])
			var params []string
			for _, p := range strings.Split(head[j+1:len(head)-1], ",") {
				if p = strings.TrimSpace(p); p != "" {
					params = append(params, p)
				}
			}
			e, err := parseSpecExpr(body)
			if err != nil {
				return fail(err)
			}
			db.Defines[name] = &PredDef{Name: name, Params: params, Body: e, Text: body}
			db.DefineOrder = append(db.DefineOrder, name)
		case "pred":
			// pred name(a, b) := expr
			i := strings.Index(rest, ":=")
			if i < 0 {
				return fail(fmt.Errorf("pred needs :="))
			}
			head := strings.TrimSpace(rest[:i])
			body := strings.TrimSpace(rest[i+2:])
			j := strings.Index(head, "(")
			if j < 0 || !strings.HasSuffix(head, ")") {
				return fail(fmt.Errorf("bad pred header %q", head))
			}
			name := strings.TrimSpace(head[:j])
			var params []string
			for _, p := range strings.Split(head[j+1:len(head)-1], ",") {
				if p = strings.TrimSpace(p); p != "" {
					params = append(params, p)
				}
			}
			e, err := parseSpecExpr(body)
			if err != nil {
				return fail(err)
			}
			db.Preds[name] = &PredDef{Name: name, Params: params, Body: e, Text: body}
		case "const":
			i := strings.Index(rest, ":=")
			if i < 0 {
				return fail(fmt.Errorf("const needs :="))
			}
			db.Consts[strings.TrimSpace(rest[:i])] = strings.TrimSpace(rest[i+2:])
		case "ghost":
			// ghost field $name Sort | ghost global $name Sort
			f := strings.Fields(rest)
			if len(f) < 3 {
				return fail(fmt.Errorf("ghost field|global $name Sort"))
			}
			db.Ghosts[f[1]] = &GhostDecl{Name: f[1], Kind: f[0], Sort: strings.Join(f[2:], " ")}
		case "specfn":
			// specfn name(Sort, Sort) Sort
			j := strings.Index(rest, "(")
			k := strings.LastIndex(rest, ")")
			if j < 0 || k < j {
				return fail(fmt.Errorf("bad specfn"))
			}
			name := strings.TrimSpace(rest[:j])
			var ps []string
			for _, p := range splitTopComma(rest[j+1 : k]) {
				if p = strings.TrimSpace(p); p != "" {
					ps = append(ps, p)
				}
			}
			db.SpecFns[name] = &SpecFn{Name: name, Params: ps, Result: strings.TrimSpace(rest[k+1:])}
		case "callers":
			// callers <qualified callee> only f1, f2 [tags] : the functions of this
			// module (tests excluded) that call the callee, as full function
			// names; "none" for an empty list
			body, tags := splitTags(rest)
			k := strings.Index(body, " only ")
			if k < 0 {
				return fail(fmt.Errorf("callers <callee> only f1, f2"))
			}
			cd := &CallersDecl{Callee: strings.TrimSpace(body[:k]), Props: tags, Src: src}
			for _, m := range strings.Split(body[k+6:], ",") {
				if m = strings.TrimSpace(m); m != "" && m != "none" {
					cd.Callers = append(cd.Callers, m)
				}
			}
			sort.Strings(cd.Callers)
			db.CallerDecls = append(db.CallerDecls, cd)
		case "methodset":
			// methodset (*T) m1, m2 [tags] : the complete method set of *T.
			// Callers that dispatch on optional interfaces (io.Copy looks for
			// WriterTo / ReaderFrom) get exactly the methods under contract.
			body, tags := splitTags(rest)
			body = strings.TrimSpace(body)
			k := strings.Index(body, ")")
			if !strings.HasPrefix(body, "(*") || k < 0 {
				return fail(fmt.Errorf("methodset (*T) m1, m2"))
			}
			ms := &MethodSetDecl{Pkg: pkgPath, Type: body[2:k], Props: tags, Src: src}
			for _, m := range strings.Split(body[k+1:], ",") {
				if m = strings.TrimSpace(m); m != "" {
					ms.Methods = append(ms.Methods, m)
				}
			}
			sort.Strings(ms.Methods)
			db.MethodSets = append(db.MethodSets, ms)
		case "global":
			// global Name init "literal" [tags]  : the package initialiser
			// assigns exactly this literal (checked on the SSA of init)
			if k := strings.Index(rest, " init "); k >= 0 {
				name := strings.TrimSpace(rest[:k])
				if pkgPath != "" && !strings.Contains(name, ".") {
					name = pkgPath + "." + name
				}
				body, tags := splitTags(rest[k+len(" init "):])
				lit, err := strconv.Unquote(strings.TrimSpace(body))
				if err != nil {
					return fail(fmt.Errorf("global init literal: %v", err))
				}
				db.GlobalInits = append(db.GlobalInits, &GlobalInit{Name: name, Lit: lit, Props: tags, Src: src})
				le, _ := parseSpecExpr("bytes(it) == " + strconv.Quote(lit))
				db.GlobalFacts[name] = append(db.GlobalFacts[name], le)
				continue
			}
			// global Name initints 1, 2, 3 [tags]: slice literal of integers
			if k := strings.Index(rest, " initints "); k >= 0 {
				name := strings.TrimSpace(rest[:k])
				if pkgPath != "" && !strings.Contains(name, ".") {
					name = pkgPath + "." + name
				}
				body, tags := splitTags(rest[k+len(" initints "):])
				gi := &GlobalInit{Name: name, Props: tags, Src: src, IsInts: true}
				fact := fmt.Sprintf("len(it) == %d", len(strings.Split(body, ",")))
				for idx, v := range strings.Split(body, ",") {
					v = strings.TrimSpace(v)
					n, ok := new(big.Int).SetString(v, 0)
					if !ok {
						return fail(fmt.Errorf("initints: bad integer %q", v))
					}
					gi.Ints = append(gi.Ints, n.String())
					fact += fmt.Sprintf(" && it[%d] == %s", idx, n.String())
				}
				db.GlobalInits = append(db.GlobalInits, gi)
				le, err := parseSpecExpr(fact)
				if err != nil {
					return fail(err)
				}
				db.GlobalFacts[name] = append(db.GlobalFacts[name], le)
				continue
			}
			// global Name initsplit "sep" count N [tags]: the package initialiser
			// assigns strings.Split(<string constant>, "sep"), which has N elements
			// (N is recomputed from the constant found in init's SSA on every run)
			if k := strings.Index(rest, " initsplit "); k >= 0 {
				name := strings.TrimSpace(rest[:k])
				if pkgPath != "" && !strings.Contains(name, ".") {
					name = pkgPath + "." + name
				}
				body, tags := splitTags(rest[k+len(" initsplit "):])
				c := strings.Index(body, " count ")
				if c < 0 {
					return fail(fmt.Errorf("global <name> initsplit \"sep\" count N"))
				}
				sep, err := strconv.Unquote(strings.TrimSpace(body[:c]))
				if err != nil || sep == "" {
					return fail(fmt.Errorf("initsplit separator: %v", err))
				}
				n, err := strconv.Atoi(strings.TrimSpace(body[c+len(" count "):]))
				if err != nil {
					return fail(fmt.Errorf("initsplit count: %v", err))
				}
				db.GlobalInits = append(db.GlobalInits, &GlobalInit{Name: name, IsSplit: true, SplitSep: sep, SplitN: n, Props: tags, Src: src})
				le, err := parseSpecExpr(fmt.Sprintf("len(it) == %d", n))
				if err != nil {
					return fail(err)
				}
				db.GlobalFacts[name] = append(db.GlobalFacts[name], le)
				continue
			}
			// global pkg/path.Name ensures <expr over `it`>
			i := strings.Index(rest, " ensures ")
			if i < 0 {
				return fail(fmt.Errorf("global <name> ensures <expr>"))
			}
			e, err := parseSpecExpr(strings.TrimSpace(rest[i+len(" ensures "):]))
			if err != nil {
				return fail(err)
			}
			name := strings.TrimSpace(rest[:i])
			db.GlobalFacts[name] = append(db.GlobalFacts[name], e)
		case "smt":
			db.SMT = append(db.SMT, rest)
		case "statefn":
			// statefn name(Sort, ...) Sort reads Type.field, mem.Int, ...
			ri := strings.Index(rest, " reads ")
			if ri < 0 {
				return fail(fmt.Errorf("statefn needs a reads list"))
			}
			head, reads := rest[:ri], rest[ri+len(" reads "):]
			j := strings.Index(head, "(")
			k := strings.LastIndex(head, ")")
			if j < 0 || k < j {
				return fail(fmt.Errorf("bad statefn"))
			}
			sf := &StateFn{Name: strings.TrimSpace(head[:j]), Result: strings.TrimSpace(head[k+1:])}
			for _, p := range splitTopComma(head[j+1 : k]) {
				if p = strings.TrimSpace(p); p != "" {
					sf.Params = append(sf.Params, p)
				}
			}
			for _, r := range strings.Split(reads, ",") {
				if r = strings.TrimSpace(r); r != "" {
					sf.Reads = append(sf.Reads, r)
				}
			}
			db.StateFns[sf.Name] = sf
		default:
			if cur == nil {
				return fail(fmt.Errorf("clause %q outside a func block", word))
			}
			if err := cur.addClause(word, label, rest, src); err != nil {
				return fail(err)
			}
		}
	}
	return nil
}

func splitTopComma(s string) []string {
	var out []string
	depth := 0
	start := 0
	for i, c := range s {
		switch c {
		case '(':
			depth++
		case ')':
			depth--
		case ',':
			if depth == 0 {
				out = append(out, s[start:i])
				start = i + 1
			}
		}
	}
	out = append(out, s[start:])
	return out
}

// parseFuncHeader parses "Name(params) (results)" or "(*T).Name(params) (results)".
func parseFuncHeader(s, pkgPath string) (*Contract, error) {
	c := &Contract{Loops: map[int]*LoopSpec{}, Inline: map[string]bool{}, Pure: map[string]bool{}, Props: map[string]bool{}}
	s = strings.TrimSpace(s)
	// find the parameter list: first "(" that follows the name
	nameEnd := -1
	if strings.HasPrefix(s, "(") {
		// receiver form: (*T).Name or (T).Name
		r := -1
		depth := 0
		for i, ch := range s {
			if ch == '(' {
				depth++
			} else if ch == ')' {
				depth--
				if depth == 0 {
					r = i
					break
				}
			}
		}
		if r < 0 {
			return nil, fmt.Errorf("bad receiver in %q", s)
		}
		recv := s[1:r]
		rest := s[r+1:]
		if !strings.HasPrefix(rest, ".") {
			return nil, fmt.Errorf("bad method key in %q", s)
		}
		rest = rest[1:]
		nameEnd = strings.Index(rest, "(")
		name := rest
		tail := ""
		if nameEnd >= 0 {
			name = rest[:nameEnd]
			tail = rest[nameEnd:]
		}
		star := ""
		if strings.HasPrefix(recv, "*") {
			star = "*"
			recv = recv[1:]
		}
		if pkgPath != "" && !strings.Contains(recv, ".") {
			recv = pkgPath + "." + recv
		}
		c.Key = "(" + star + recv + ")." + strings.TrimSpace(name)
		s = tail
	} else {
		nameEnd = strings.Index(s, "(")
		name := s
		tail := ""
		if nameEnd >= 0 {
			name = s[:nameEnd]
			tail = s[nameEnd:]
		}
		name = strings.TrimSpace(name)
		if pkgPath != "" && !strings.Contains(name, ".") {
			name = pkgPath + "." + name
		} else if pkgPath != "" && strings.Contains(name, "$") {
			name = pkgPath + "." + name
		}
		c.Key = name
		s = tail
	}
	s = strings.TrimSpace(s)
	if s == "" {
		return c, nil
	}
	// (params) (results)
	groups := []string{}
	depth := 0
	start := -1
	for i, ch := range s {
		if ch == '(' {
			if depth == 0 {
				start = i + 1
			}
			depth++
		} else if ch == ')' {
			depth--
			if depth == 0 {
				groups = append(groups, s[start:i])
			}
		}
	}
	names := func(g string) []string {
		var out []string
		for _, p := range strings.Split(g, ",") {
			p = strings.TrimSpace(p)
			if p == "" {
				continue
			}
			out = append(out, strings.Fields(p)[0])
		}
		return out
	}
	if len(groups) > 0 {
		c.Params = names(groups[0])
	}
	if len(groups) > 1 {
		c.Results = names(groups[1])
	}
	return c, nil
}

func (c *Contract) loop(n int) *LoopSpec {
	l := c.Loops[n]
	if l == nil {
		l = &LoopSpec{}
		c.Loops[n] = l
	}
	return l
}

func (c *Contract) addClause(word, label, rest, src string) error {
	mk := func(kind, text string) (*Clause, error) {
		text, tags := splitTags(text)
		e, err := parseSpecExpr(text)
		if err != nil {
			return nil, err
		}
		for _, t := range tags {
			c.Props[t] = true
		}
		return &Clause{Kind: kind, Label: label, Text: text, Expr: e, Props: tags, Src: src}, nil
	}
	switch word {
	case "mode":
		c.Mode = rest
	case "requires":
		cl, err := mk("requires", rest)
		if err != nil {
			return err
		}
		if cl.Label == "" {
			cl.Label = strconv.Itoa(len(c.Requires) + 1)
		}
		c.Requires = append(c.Requires, cl)
	case "ensures":
		cl, err := mk("ensures", rest)
		if err != nil {
			return err
		}
		if cl.Label == "" {
			cl.Label = strconv.Itoa(len(c.Ensures) + 1)
		}
		c.Ensures = append(c.Ensures, cl)
	case "assumes":
		// an ensures clause that is NOT checked against the body: it is
		// assumed at call sites and listed among the evidence assumptions
		cl, err := mk("ensures", rest)
		if err != nil {
			return err
		}
		cl.Kind = "assumes"
		if cl.Label == "" {
			cl.Label = "assumed" + strconv.Itoa(len(c.Ensures)+1)
		}
		c.Ensures = append(c.Ensures, cl)
	case "modifies":
		c.HasMod = true
		if strings.TrimSpace(rest) != "\\nothing" && strings.TrimSpace(rest) != "nothing" {
			for _, m := range splitTopComma(rest) {
				if m = strings.TrimSpace(m); m != "" {
					c.Modifies = append(c.Modifies, m)
				}
			}
		}
	case "frame":
		// frame assumed <reason>
		if !strings.HasPrefix(rest, "assumed") {
			return fmt.Errorf("frame assumed <reason>")
		}
		c.FrameAssumed = strings.TrimSpace(strings.TrimPrefix(rest, "assumed"))
		if c.FrameAssumed == "" {
			c.FrameAssumed = "no reason given"
		}
	case "loop":
		f := strings.SplitN(rest, " ", 3)
		if len(f) < 2 {
			return fmt.Errorf("loop N invariant|decreases|unroll")
		}
		n, err := strconv.Atoi(f[0])
		if err != nil {
			return fmt.Errorf("loop ordinal: %v", err)
		}
		kind := f[1]
		if i := strings.Index(kind, "#"); i >= 0 {
			label = kind[i+1:]
			kind = kind[:i]
		}
		body := ""
		if len(f) > 2 {
			body = f[2]
		}
		ls := c.loop(n)
		switch kind {
		case "unroll":
			ls.Unroll = true
		case "invariant":
			cl, err := mk("invariant", body)
			if err != nil {
				return err
			}
			cl.Loop = n
			cl.Label = label
			if cl.Label == "" {
				cl.Label = strconv.Itoa(len(ls.Invariants) + 1)
			}
			ls.Invariants = append(ls.Invariants, cl)
		case "decreases":
			cl, err := mk("decreases", body)
			if err != nil {
				return err
			}
			cl.Loop = n
			ls.Decreases = cl
		default:
			return fmt.Errorf("unknown loop clause %q", kind)
		}
	case "inline":
		for _, m := range strings.Split(rest, ",") {
			if m = strings.TrimSpace(m); m != "" {
				c.Inline[m] = true
			}
		}
	case "pure":
		rest = strings.TrimSpace(rest)
		if rest == "" {
			c.IsPure = true
		}
		for _, m := range strings.Split(rest, ",") {
			if m = strings.TrimSpace(m); m != "" {
				c.Pure[m] = true
			}
		}
	case "fresh":
		rest, ftags := splitTags(rest)
		fc := &FreshClause{Text: rest, Props: ftags}
		for _, t := range ftags {
			c.Props[t] = true
		}
		ex, when := rest, ""
		if i := strings.Index(rest, " when "); i >= 0 {
			ex, when = rest[:i], rest[i+len(" when "):]
		}
		e, err := parseSpecExpr(strings.TrimSpace(ex))
		if err != nil {
			return err
		}
		fc.Expr = e
		if when != "" {
			w, err := parseSpecExpr(strings.TrimSpace(when))
			if err != nil {
				return err
			}
			fc.When = w
		}
		c.Fresh = append(c.Fresh, fc)
	case "noreturn":
		c.NoReturn = true
		_, tags := splitTags(rest)
		for _, t := range tags {
			c.Props[t] = true
		}
		c.NoReturnProps = tags
	case "maypanic":
		c.MayPanic = true
	case "nosafety":
		c.NoSafety = true
	case "timeout":
		n, err := strconv.Atoi(strings.TrimSpace(rest))
		if err != nil {
			return err
		}
		c.TimeoutMs = n
	case "pathcap":
		n, err := strconv.Atoi(strings.TrimSpace(rest))
		if err != nil {
			return err
		}
		c.PathCap = n
	case "uses":
		c.Uses = append(c.Uses, strings.Fields(rest)...)
	case "call":
		// call <callee>#k requires <expr> [tags]
		f := strings.SplitN(rest, " ", 3)
		if len(f) < 3 || f[1] != "requires" {
			return fmt.Errorf("call <callee>#k requires <expr>")
		}
		callee := f[0]
		n := 0
		if i := strings.LastIndex(callee, "#"); i >= 0 {
			k, err := strconv.Atoi(callee[i+1:])
			if err != nil {
				return fmt.Errorf("bad call ordinal in %q", callee)
			}
			n = k
			callee = callee[:i]
		}
		cl, err := mk("callreq", f[2])
		if err != nil {
			return err
		}
		cl.Callee = callee
		cl.CallN = n
		if cl.Label == "" {
			cl.Label = fmt.Sprintf("%s#%d.%d", shortName(callee), n, len(c.CallReqs)+1)
		}
		c.CallReqs = append(c.CallReqs, cl)
	case "props":
		for _, t := range strings.Fields(rest) {
			c.Props[t] = true
		}
	default:
		return fmt.Errorf("unknown clause %q", word)
	}
	return nil
}

func shortName(s string) string {
	if i := strings.LastIndex(s, "/"); i >= 0 {
		s = s[i+1:]
	}
	return s
}

func (c *Contract) propList() []string {
	var out []string
	for p := range c.Props {
		out = append(out, p)
	}
	sort.Strings(out)
	return out
}

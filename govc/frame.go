package main

// Frame obligations: a function with an explicit `modifies` clause must leave
// every heap location that existed at entry and is not named by the clause
// unchanged. Checked at each return as one obligation per touched heap array:
//   forall x < alloc0, x not a declared base :: H_final[x] == H_entry[x]
// (objects/regions allocated during the call are not constrained).

import (
	"fmt"
	"go/types"
	"sort"
	"strings"
)

type frameDecl struct {
	all     bool
	whole   map[string]bool   // heap names declared modifiable as a whole (ghost globals)
	bases   map[string][]Term // heap name -> exempt object / region ids (entry values)
}

func (ex *Exec) parseFrame(st *State, c *Contract, env *Env) (*frameDecl, error) {
	fd := &frameDecl{whole: map[string]bool{}, bases: map[string][]Term{}}
	for _, m := range c.Modifies {
		m = strings.TrimSpace(m)
		if m == "\\heap" || m == "\\all" {
			fd.all = true
			continue
		}
		e, err := parseSpecExpr(m)
		if err != nil {
			return nil, err
		}
		switch x := e.(type) {
		case *SIdent:
			if strings.HasPrefix(x.Name, "$") {
				fd.whole["g|"+x.Name] = true
				continue
			}
			// a package-level variable of the function's package, as a whole
			_, isParam := env.fr.params[x.Name]
			if env.pkg != nil && !isParam {
				if o, ok := env.pkg.Scope().Lookup(x.Name).(*types.Var); ok && o != nil {
					fd.whole["V|"+o.Pkg().Path()+"."+o.Name()] = true
					continue
				}
			}
			v, err := ex.evalSpec(e, env)
			if err != nil {
				return nil, err
			}
			if err := fd.addPointee(v); err != nil {
				return nil, fmt.Errorf("%s: %v", m, err)
			}
		case *SUn:
			v, err := ex.evalSpec(x.X, env)
			if err != nil {
				return nil, err
			}
			if err := fd.addPointee(v); err != nil {
				return nil, fmt.Errorf("%s: %v", m, err)
			}
		case *SSel:
			base, err := ex.evalSpec(x.X, env)
			if err != nil {
				return nil, err
			}
			if strings.HasPrefix(x.Sel, "$") {
				id, err := ex.idOfErr(base)
				if err != nil {
					return nil, err
				}
				fd.bases["G|"+x.Sel] = append(fd.bases["G|"+x.Sel], id)
				continue
			}
			s, sty, ok := structOf(base.Ty)
			if !ok {
				return nil, fmt.Errorf("%s: not a struct pointer", m)
			}
			_, f := fieldByName(s, x.Sel)
			if f == nil {
				return nil, fmt.Errorf("no field %s", x.Sel)
			}
			switch fu := f.Type().Underlying().(type) {
			case *types.Array:
				rg := ex.fieldRegion(st, base.T, sty, f)
				hn := memName(sortOf(fu.Elem()))
				fd.bases[hn] = append(fd.bases[hn], rg)
			default:
				hn := fieldHeapName(sty, f)
				fd.bases[hn] = append(fd.bases[hn], base.T)
			}
		case *SSlice:
			v, err := ex.evalSpec(x.X, env)
			if err != nil {
				return nil, err
			}
			if v.Kind != VTerm || v.T.Sort != SortSlice {
				return nil, fmt.Errorf("%s: not a slice", m)
			}
			es := SortInt
			if sl, ok := v.Ty.Underlying().(*types.Slice); ok {
				es = sortOf(sl.Elem())
			}
			fd.bases[memName(es)] = append(fd.bases[memName(es)], SlRg(v.T))
		default:
			return nil, fmt.Errorf("unsupported modifies entry %q", m)
		}
	}
	return fd, nil
}

func (fd *frameDecl) addPointee(v Val) error {
	if v.Kind == VTerm && v.T.Sort == SortInt {
		if et, ok := derefPtr(v.Ty); ok {
			if arr, ok := et.Underlying().(*types.Array); ok {
				hn := memName(sortOf(arr.Elem()))
				fd.bases[hn] = append(fd.bases[hn], v.T)
				return nil
			}
		}
	}
	if v.Kind == VTerm && v.T.Sort == SortSlice {
		es := SortInt
		if sl, ok := v.Ty.Underlying().(*types.Slice); ok {
			es = sortOf(sl.Elem())
		}
		fd.bases[memName(es)] = append(fd.bases[memName(es)], SlRg(v.T))
		return nil
	}
	return fmt.Errorf("cannot name the pointee")
}

// frameGoal is the frame condition of one heap array against the entry state.
func (ex *Exec) frameGoal(st *State, fd *frameDecl, name string, cur Term) (Term, bool) {
	old := st.heapAt(ex.entry, name, cur.Sort)
	if cur.S == old.S || fd.whole[name] || strings.HasPrefix(name, "g|$site") {
		return Term{}, false
	}
	if !strings.HasPrefix(cur.Sort, "(Array Int ") {
		return Eq(cur, old), true
	}
	cond := "(and (< x alloc0) (> x 0) (isold x)"
	for _, b := range fd.bases[name] {
		cond += fmt.Sprintf(" (not (= x %s))", b.S)
	}
	cond += ")"
	goal := fmt.Sprintf("(forall ((x Int)) (! (=> %s (= (select %s x) (select %s x))) :pattern ((select %s x))))", cond, cur.S, old.S, cur.S)
	return mkTerm(goal, SortBool), true
}

func frameLabel(name string) string {
	label := strings.TrimPrefix(strings.TrimPrefix(name, "F|"), "G|")
	return strings.ReplaceAll(label, "filippo.io/age", "age")
}

// loopFrame: at a cut loop of the function under verification the frame
// condition is an implicit invariant of every heap the loop may change.
// check=true emits obligations (entry / back edge), check=false assumes.
func (ex *Exec) loopFrame(st *State, fr *Frame, n int, class string, check bool) {
	fd := ex.topFrame
	if fd == nil || fd.all || fr.depth != 0 {
		return
	}
	var names []string
	for name := range st.heaps {
		names = append(names, name)
	}
	sort.Strings(names)
	for _, name := range names {
		g, ok := ex.frameGoal(st, fd, name, st.heaps[name])
		if !ok {
			continue
		}
		if check {
			ex.check(st, fr, class, fmt.Sprintf("loop%d.frame.%s", n, frameLabel(name)), g, ex.frameProps(), "implicit loop invariant: frame of "+name, "")
		} else {
			st.assume(g)
		}
	}
}

// frameChecks emits, at a return, one obligation per heap array whose current
// version differs from its entry version.
func (ex *Exec) frameChecks(st *State, fr *Frame, fd *frameDecl, src string) {
	if fd == nil || fd.all {
		return
	}
	var names []string
	for n := range st.heaps {
		names = append(names, n)
	}
	sort.Strings(names)
	for _, name := range names {
		cur := st.heaps[name]
		old := st.heapAt(ex.entry, name, cur.Sort)
		if cur.S == old.S || fd.whole[name] || strings.HasPrefix(name, "g|$site") {
			// (call-site ghosts of the function itself are not caller-visible state)
			continue
		}
		if strings.HasPrefix(name, "V|") && ex.isTestOnlyGlobal(name) {
			continue
		}
		label := strings.TrimPrefix(strings.TrimPrefix(name, "F|"), "G|")
		label = strings.ReplaceAll(label, "filippo.io/age", "age")
		if !strings.HasPrefix(cur.Sort, "(Array Int ") {
			// scalar cell (ghost global / package variable)
			ex.check(st, fr, "frame", label, Eq(cur, old), ex.frameProps(), "frame: "+name+" is not in the modifies clause", src)
			continue
		}
		var ex2 []string
		for _, b := range fd.bases[name] {
			ex2 = append(ex2, fmt.Sprintf("(not (= x %s))", b.S))
		}
		cond := "(and (< x alloc0) (> x 0) (isold x)"
		for _, e := range ex2 {
			cond += " " + e
		}
		cond += ")"
		goal := fmt.Sprintf("(forall ((x Int)) (! (=> %s (= (select %s x) (select %s x))) :pattern ((select %s x))))", cond, cur.S, old.S, cur.S)
		ex.check(st, fr, "frame", label, mkTerm(goal, SortBool), ex.frameProps(), "frame: objects that existed at entry and are not named by the modifies clause keep their "+name, src)
	}
}

func (ex *Exec) isTestOnlyGlobal(name string) bool { return false }

// writeCheck: in a function whose frame is checked, every write (store, copy,
// in-place append, callee effect) must target something allocated during the
// call or named by the modifies clause - even if it writes the value that is
// already there (a same-value write is still a data race under sharing).
func (ex *Exec) writeCheck(st *State, fr *Frame, heap string, id Term, cond Term, what string, src string) {
	fd := ex.topFrame
	if fd == nil || fd.all || fd.whole[heap] {
		return
	}
	// allocated in this call: at or above the entry allocation counter, or known
	// not to have existed at entry (`fresh` facts; never assumed of entry objects)
	ok := []Term{Ge(id, mkTerm("alloc0", SortInt)), Not(mkTerm("(isold "+id.S+")", SortBool))}
	for _, b := range fd.bases[heap] {
		ok = append(ok, Eq(id, b))
	}
	goal := Implies(cond, Or(ok...))
	ex.wcount++
	ex.check(st, fr, "frame", fmt.Sprintf("write.%s.%d", frameLabel(heap), ex.wcount), goal, ex.frameProps(), "write to "+heap+" ("+what+") targets memory allocated in this call or named by the modifies clause", src)
}

// frameProps: a frame obligation serves every property the contract serves
// (callers rely on the frame whatever they are proving), and C20.
func (ex *Exec) frameProps() []string {
	m := map[string]bool{"C20": true}
	if ex.topC != nil {
		for p := range ex.topC.Props {
			m[p] = true
		}
	}
	return sortedKeys(m)
}

// lazyLoopFrame: the frame assumption for a heap that is first touched after a
// loop-head havoc (see State.heap).
func (ex *Exec) lazyLoopFrame(st *State, name string, cur Term) {
	fd := ex.topFrame
	if fd == nil || fd.all || ex.entry == nil {
		return
	}
	if g, ok := ex.frameGoal(st, fd, name, cur); ok {
		st.assume(g)
	}
}

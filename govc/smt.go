package main

// SMT term layer: terms are SMT-LIB text tagged with a sort, with constant
// folding for integers and booleans (the executor doubles as a partial
// evaluator: loops whose trip count is concrete on a path unroll exactly).

import (
	"fmt"
	"math/big"
	"strings"
)

const (
	SortInt   = "Int"
	SortBool  = "Bool"
	SortBytes = "Bytes"
	SortSlice = "Slice"
	SortIface = "Iface"
)

type Term struct {
	S    string
	Sort string
	K    *big.Int // known integer value (Sort Int)
	B    int      // 0 unknown, 1 true, 2 false (Sort Bool)
}

func (t Term) String() string { return t.S }
func (t Term) IsConst() bool  { return t.K != nil || t.B != 0 }

func mkTerm(s, sort string) Term { return Term{S: s, Sort: sort} }

func IntLit(n int64) Term { return BigLit(big.NewInt(n)) }

func BigLit(n *big.Int) Term {
	var s string
	if n.Sign() < 0 {
		s = "(- " + new(big.Int).Neg(n).String() + ")"
	} else {
		s = n.String()
	}
	return Term{S: s, Sort: SortInt, K: new(big.Int).Set(n)}
}

func BoolLit(b bool) Term {
	if b {
		return Term{S: "true", Sort: SortBool, B: 1}
	}
	return Term{S: "false", Sort: SortBool, B: 2}
}

var (
	TrueT  = BoolLit(true)
	FalseT = BoolLit(false)
)

func app(sort, op string, args ...Term) Term {
	var sb strings.Builder
	sb.WriteString("(")
	sb.WriteString(op)
	for _, a := range args {
		sb.WriteString(" ")
		sb.WriteString(a.S)
	}
	sb.WriteString(")")
	if sb.Len() > maxTermLen {
		panic(termTooBig{})
	}
	return Term{S: sb.String(), Sort: sort}
}

// maxTermLen caps the printed size of one term. Terms are strings; a mutated
// body whose loop is no longer cut by an invariant can double a term per
// iteration and exhaust memory within a few hundred steps (observed: 65 GB
// before the time budget was looked at). Exceeding the cap aborts the
// exploration of the function, which is then reported as undecided.
const maxTermLen = 8 << 20

type termTooBig struct{}

func Add(a, b Term) Term {
	if a.K != nil && b.K != nil {
		return BigLit(new(big.Int).Add(a.K, b.K))
	}
	if a.K != nil && a.K.Sign() == 0 {
		return b
	}
	if b.K != nil && b.K.Sign() == 0 {
		return a
	}
	return app(SortInt, "+", a, b)
}

func Sub(a, b Term) Term {
	if a.K != nil && b.K != nil {
		return BigLit(new(big.Int).Sub(a.K, b.K))
	}
	if b.K != nil && b.K.Sign() == 0 {
		return a
	}
	if a.S == b.S {
		return IntLit(0)
	}
	return app(SortInt, "-", a, b)
}

func Mul(a, b Term) Term {
	if a.K != nil && b.K != nil {
		return BigLit(new(big.Int).Mul(a.K, b.K))
	}
	if a.K != nil && a.K.Cmp(big.NewInt(1)) == 0 {
		return b
	}
	if b.K != nil && b.K.Cmp(big.NewInt(1)) == 0 {
		return a
	}
	return app(SortInt, "*", a, b)
}

func Neg(a Term) Term {
	if a.K != nil {
		return BigLit(new(big.Int).Neg(a.K))
	}
	return app(SortInt, "-", a)
}

// Go semantics: truncated division. SMT-LIB div/mod are Euclidean; for
// non-negative operands they agree. We emit the truncated form with ite.
func QuoT(a, b Term) Term {
	if a.K != nil && b.K != nil && b.K.Sign() != 0 {
		return BigLit(new(big.Int).Quo(a.K, b.K))
	}
	// trunc(a/b) = ite(a>=0, a div b, -((-a) div b)) for b>0 ; general via abs
	return mkTerm(fmt.Sprintf("(ite (>= %s 0) (ite (> %s 0) (div %s %s) (- (div %s (- %s)))) (ite (> %s 0) (- (div (- %s) %s)) (div (- %s) (- %s))))",
		a.S, b.S, a.S, b.S, a.S, b.S, b.S, a.S, b.S, a.S, b.S), SortInt)
}

func RemT(a, b Term) Term {
	if a.K != nil && b.K != nil && b.K.Sign() != 0 {
		return BigLit(new(big.Int).Rem(a.K, b.K))
	}
	q := QuoT(a, b)
	return Sub(a, Mul(q, b))
}

// ModE is the Euclidean mod (used for wrap-around of unsigned types; m>0).
func ModE(a Term, m *big.Int) Term {
	if a.K != nil {
		return BigLit(new(big.Int).Mod(a.K, m))
	}
	return app(SortInt, "mod", a, BigLit(m))
}

func DivE(a Term, m *big.Int) Term {
	if a.K != nil {
		q := new(big.Int)
		r := new(big.Int)
		q.DivMod(a.K, m, r)
		return BigLit(q)
	}
	return app(SortInt, "div", a, BigLit(m))
}

func cmpFold(a, b Term, f func(c int) bool) (Term, bool) {
	if a.K != nil && b.K != nil {
		return BoolLit(f(a.K.Cmp(b.K))), true
	}
	return Term{}, false
}

func Lt(a, b Term) Term {
	if t, ok := cmpFold(a, b, func(c int) bool { return c < 0 }); ok {
		return t
	}
	return app(SortBool, "<", a, b)
}
func Le(a, b Term) Term {
	if t, ok := cmpFold(a, b, func(c int) bool { return c <= 0 }); ok {
		return t
	}
	if a.S == b.S {
		return TrueT
	}
	return app(SortBool, "<=", a, b)
}
func Gt(a, b Term) Term { return Lt(b, a) }
func Ge(a, b Term) Term { return Le(b, a) }

func Eq(a, b Term) Term {
	if a.Sort != b.Sort {
		panic(fmt.Sprintf("Eq: sort mismatch %s:%s vs %s:%s", a.S, a.Sort, b.S, b.Sort))
	}
	if a.K != nil && b.K != nil {
		return BoolLit(a.K.Cmp(b.K) == 0)
	}
	if a.B != 0 && b.B != 0 {
		return BoolLit(a.B == b.B)
	}
	if a.S == b.S {
		return TrueT
	}
	if a.Sort == SortBool {
		if b.B == 1 {
			return a
		}
		if b.B == 2 {
			return Not(a)
		}
		if a.B == 1 {
			return b
		}
		if a.B == 2 {
			return Not(b)
		}
	}
	return app(SortBool, "=", a, b)
}

func Neq(a, b Term) Term { return Not(Eq(a, b)) }

func Not(a Term) Term {
	switch a.B {
	case 1:
		return FalseT
	case 2:
		return TrueT
	}
	if strings.HasPrefix(a.S, "(not ") {
		return mkTerm(a.S[5:len(a.S)-1], SortBool)
	}
	return app(SortBool, "not", a)
}

func And(ts ...Term) Term {
	var out []Term
	for _, t := range ts {
		if t.Sort != SortBool {
			panic("And: non-bool " + t.S + ":" + t.Sort)
		}
		if t.B == 2 {
			return FalseT
		}
		if t.B == 1 {
			continue
		}
		out = append(out, t)
	}
	if len(out) == 0 {
		return TrueT
	}
	if len(out) == 1 {
		return out[0]
	}
	return app(SortBool, "and", out...)
}

func Or(ts ...Term) Term {
	var out []Term
	for _, t := range ts {
		if t.Sort != SortBool {
			panic("Or: non-bool " + t.S + ":" + t.Sort)
		}
		if t.B == 1 {
			return TrueT
		}
		if t.B == 2 {
			continue
		}
		out = append(out, t)
	}
	if len(out) == 0 {
		return FalseT
	}
	if len(out) == 1 {
		return out[0]
	}
	return app(SortBool, "or", out...)
}

func Implies(a, b Term) Term {
	if a.B == 1 {
		return b
	}
	if a.B == 2 || b.B == 1 {
		return TrueT
	}
	if b.B == 2 {
		return Not(a)
	}
	return app(SortBool, "=>", a, b)
}

func Ite(c, a, b Term) Term {
	if a.Sort != b.Sort {
		panic(fmt.Sprintf("Ite: sort mismatch %s vs %s", a.Sort, b.Sort))
	}
	if c.B == 1 {
		return a
	}
	if c.B == 2 {
		return b
	}
	if a.S == b.S {
		return a
	}
	return app(a.Sort, "ite", c, a, b)
}

func ArraySort(elem string) string { return "(Array Int " + elem + ")" }

func elemSortOfArray(s string) string {
	if strings.HasPrefix(s, "(Array Int ") {
		return s[len("(Array Int ") : len(s)-1]
	}
	panic("not an array sort: " + s)
}

func Select(a, i Term) Term {
	return app(elemSortOfArray(a.Sort), "select", a, i)
}

func Store(a, i, v Term) Term {
	if elemSortOfArray(a.Sort) != v.Sort {
		panic(fmt.Sprintf("Store: sort mismatch array %s value %s:%s", a.Sort, v.S, v.Sort))
	}
	return app(a.Sort, "store", a, i, v)
}

// ---- datatypes -------------------------------------------------------

func MkSlice(rg, off, ln, cp Term) Term { return app(SortSlice, "mk-slice", rg, off, ln, cp) }

func destruct(t Term, ctor string, idx int, sort string, sel string) Term {
	// fold (sel (ctor a b c d)) syntactically when possible
	if strings.HasPrefix(t.S, "("+ctor+" ") {
		parts := splitTop(t.S[len(ctor)+2 : len(t.S)-1])
		if idx < len(parts) {
			r := mkTerm(parts[idx], sort)
			if sort == SortInt {
				if k, ok := parseIntLit(parts[idx]); ok {
					r.K = k
				}
			}
			return r
		}
	}
	return app(sort, sel, t)
}

func SlRg(s Term) Term  { return destruct(s, "mk-slice", 0, SortInt, "s.rg") }
func SlOff(s Term) Term { return destruct(s, "mk-slice", 1, SortInt, "s.off") }
func SlLen(s Term) Term { return destruct(s, "mk-slice", 2, SortInt, "s.len") }
func SlCap(s Term) Term { return destruct(s, "mk-slice", 3, SortInt, "s.cap") }

func MkIface(ty, val Term) Term { return app(SortIface, "mk-iface", ty, val) }
func IfTy(s Term) Term          { return destruct(s, "mk-iface", 0, SortInt, "i.ty") }
func IfVal(s Term) Term         { return destruct(s, "mk-iface", 1, SortInt, "i.val") }

var NilSlice = MkSlice(IntLit(0), IntLit(0), IntLit(0), IntLit(0))
var NilIface = MkIface(IntLit(0), IntLit(0))

func parseIntLit(s string) (*big.Int, bool) {
	s = strings.TrimSpace(s)
	neg := false
	if strings.HasPrefix(s, "(- ") && strings.HasSuffix(s, ")") {
		neg = true
		s = strings.TrimSpace(s[3 : len(s)-1])
	}
	if s == "" {
		return nil, false
	}
	for _, c := range s {
		if c < '0' || c > '9' {
			return nil, false
		}
	}
	n, ok := new(big.Int).SetString(s, 10)
	if !ok {
		return nil, false
	}
	if neg {
		n.Neg(n)
	}
	return n, true
}

// splitTop splits an s-expression argument list at top level.
func splitTop(s string) []string {
	var out []string
	depth := 0
	start := -1
	inStr := false
	for i := 0; i < len(s); i++ {
		c := s[i]
		if inStr {
			if c == '"' {
				inStr = false
			}
			continue
		}
		switch c {
		case '"':
			inStr = true
			if start < 0 {
				start = i
			}
		case '(':
			if depth == 0 && start < 0 {
				start = i
			}
			depth++
		case ')':
			depth--
			if depth == 0 && start >= 0 {
				out = append(out, s[start:i+1])
				start = -1
			}
		case ' ', '\n', '\t':
			if depth == 0 && start >= 0 {
				out = append(out, s[start:i])
				start = -1
			}
		default:
			if start < 0 {
				start = i
			}
		}
	}
	if start >= 0 {
		out = append(out, s[start:])
	}
	return out
}

// ---- Bytes (abstract byte sequences; Go strings are Bytes values) ----

func BLen(b Term) Term {
	if strings.HasPrefix(b.S, "(b.of ") {
		parts := splitTop(b.S[6 : len(b.S)-1])
		if len(parts) == 3 {
			t := mkTerm(parts[2], SortInt)
			if k, ok := parseIntLit(parts[2]); ok {
				t.K = k
			}
			return t
		}
	}
	return app(SortInt, "b.len", b)
}
func BAt(b, i Term) Term      { return app(SortInt, "b.at", b, i) }
func BCat(a, b Term) Term     { return app(SortBytes, "b.cat", a, b) }
func BSub(b, i, j Term) Term  { return app(SortBytes, "b.sub", b, i, j) }
func BOf(arr, off, n Term) Term { return app(SortBytes, "b.of", arr, off, n) }

var BEmpty = mkTerm("b.empty", SortBytes)

// zero value term for a sort
func ZeroOf(sort string) Term {
	switch sort {
	case SortInt:
		return IntLit(0)
	case SortBool:
		return FalseT
	case SortBytes:
		return BEmpty
	case SortSlice:
		return NilSlice
	case SortIface:
		return NilIface
	}
	if strings.HasPrefix(sort, "(Array Int ") {
		e := elemSortOfArray(sort)
		return mkTerm(fmt.Sprintf("((as const %s) %s)", sort, ZeroOf(e).S), sort)
	}
	panic("ZeroOf: unknown sort " + sort)
}

const preludeDecls = `
(declare-sort Bytes 0)
(declare-datatypes ((Slice 0)) (((mk-slice (s.rg Int) (s.off Int) (s.len Int) (s.cap Int)))))
(declare-datatypes ((Iface 0)) (((mk-iface (i.ty Int) (i.val Int)))))
(declare-fun b.len (Bytes) Int)
(declare-fun b.at (Bytes Int) Int)
(declare-fun b.cat (Bytes Bytes) Bytes)
(declare-fun b.sub (Bytes Int Int) Bytes)
(declare-fun b.of ((Array Int Int) Int Int) Bytes)
(declare-const b.empty Bytes)
(declare-fun isold (Int) Bool)
(declare-fun rg.kind (Int) Int)
(declare-fun rg.owner (Int) Int)
(declare-fun wraps (Iface Iface) Bool)
(declare-fun liberr (Iface) Bool)
`

// Axioms are included in a query only when their trigger symbol occurs in it
// (directly or through another included axiom): the omitted ones constrain
// only symbols the query does not mention, so omitting them preserves both
// unsat and sat answers, and keeps quantifier-free obligations decidable
// (a failing one then yields a genuine model instead of "unknown").
type axiom struct{ trigger, text string }

var coreAxioms = []axiom{
	{"b.empty", "(assert (= (b.len b.empty) 0))"},
	{"b.len", "(assert (forall ((s Bytes)) (! (>= (b.len s) 0) :pattern ((b.len s)))))"},
	{"b.len", "(assert (forall ((s Bytes)) (! (=> (= (b.len s) 0) (= s b.empty)) :pattern ((b.len s)))))"},
	{"b.cat", "(assert (forall ((a Bytes) (b Bytes)) (! (= (b.len (b.cat a b)) (+ (b.len a) (b.len b))) :pattern ((b.cat a b)))))"},
	{"b.cat", "(assert (forall ((a Bytes)) (! (= (b.cat a b.empty) a) :pattern ((b.cat a b.empty)))))"},
	{"b.cat", "(assert (forall ((a Bytes)) (! (= (b.cat b.empty a) a) :pattern ((b.cat b.empty a)))))"},
	{"b.cat", "(assert (forall ((a Bytes) (b Bytes) (c Bytes)) (! (= (b.cat (b.cat a b) c) (b.cat a (b.cat b c))) :pattern ((b.cat (b.cat a b) c)))))"},
	{"b.of", "(assert (forall ((m (Array Int Int)) (o Int) (n Int)) (! (=> (>= n 0) (= (b.len (b.of m o n)) n)) :pattern ((b.of m o n)))))"},
	{"b.of", "(assert (forall ((m (Array Int Int)) (o Int) (n Int) (i Int)) (! (=> (and (<= 0 i) (< i n)) (= (b.at (b.of m o n) i) (select m (+ o i)))) :pattern ((b.at (b.of m o n) i)))))"},
	{"b.of", "(assert (forall ((m (Array Int Int)) (o Int)) (! (= (b.of m o 0) b.empty) :pattern ((b.of m o 0)))))"},
	{"b.sub", "(assert (forall ((s Bytes) (i Int) (j Int)) (! (=> (and (<= 0 i) (<= i j) (<= j (b.len s))) (= (b.len (b.sub s i j)) (- j i))) :pattern ((b.sub s i j)))))"},
	{"b.sub", "(assert (forall ((s Bytes) (i Int) (j Int) (k Int)) (! (=> (and (<= 0 i) (<= i j) (<= j (b.len s)) (<= 0 k) (< k (- j i))) (= (b.at (b.sub s i j) k) (b.at s (+ i k)))) :pattern ((b.at (b.sub s i j) k)))))"},
	{"b.sub", "(assert (forall ((s Bytes)) (! (= (b.sub s 0 (b.len s)) s) :pattern ((b.sub s 0 (b.len s))))))"},
	{"b.sub", "(assert (forall ((s Bytes) (i Int)) (! (= (b.sub s i i) b.empty) :pattern ((b.sub s i i)))))"},
	{"b.sub", "(assert (forall ((m (Array Int Int)) (o Int) (n Int) (i Int) (j Int)) (! (=> (and (<= 0 i) (<= i j) (<= j n)) (= (b.sub (b.of m o n) i j) (b.of m (+ o i) (- j i)))) :pattern ((b.sub (b.of m o n) i j)))))"},
	{"b.sub", "(assert (forall ((a Bytes) (b Bytes)) (! (= (b.sub (b.cat a b) 0 (b.len a)) a) :pattern ((b.sub (b.cat a b) 0 (b.len a))))))"},
	{"b.sub", "(assert (forall ((a Bytes) (b Bytes)) (! (= (b.sub (b.cat a b) (b.len a) (b.len (b.cat a b))) b) :pattern ((b.sub (b.cat a b) (b.len a) (b.len (b.cat a b)))))))"},
	{"b.sub", "(assert (forall ((s Bytes) (i Int) (j Int) (k Int) (l Int)) (! (=> (and (<= 0 i) (<= i j) (<= j (b.len s)) (<= 0 k) (<= k l) (<= l (- j i))) (= (b.sub (b.sub s i j) k l) (b.sub s (+ i k) (+ i l)))) :pattern ((b.sub (b.sub s i j) k l)))))"},
	{"wraps", "(assert (forall ((e Iface)) (! (wraps e e) :pattern ((wraps e e)))))"},
	{"wraps", "(assert (forall ((e Iface)) (! (= (wraps (mk-iface 0 0) e) (= e (mk-iface 0 0))) :pattern ((wraps (mk-iface 0 0) e)))))"},
}

#!/usr/bin/env python3
"""Must-fail corpus: each mutant is a small change to /repo that compiles and
passes the existing tests but breaks a property; the named check must report a
VIOLATION for that property (and the unchanged tree must not).

usage: selftest/run.py [-k substring] [--keep]
Mutant file format (selftest/mutants/*.mut):
  # property: C10
  # file: scrypt.go
  # expect: <substring of an obligation name that must be reported> (optional)
  # also-quiet: C03 C07   (properties whose check must stay silent; optional)
  --- old
  <exact text to find (must occur exactly once)>
  --- new
  <replacement>
"""
import os, re, shutil, subprocess, sys, tempfile, glob, json

ROOT = os.path.dirname(os.path.abspath(__file__))
VERIF = os.path.dirname(ROOT)
REPO = os.environ.get("VERIF_REPO", "/repo")
GOVC = os.path.join(VERIF, "bin", "govc")

def parse(path):
    meta, old, new, mode = {}, [], [], None
    for line in open(path).read().split("\n"):
        if line.startswith("--- old"):
            mode = "old"; continue
        if line.startswith("--- new"):
            mode = "new"; continue
        if mode is None:
            m = re.match(r"#\s*([\w-]+):\s*(.*)", line)
            if m:
                meta[m.group(1)] = m.group(2).strip()
        elif mode == "old":
            old.append(line)
        else:
            new.append(line)
    return meta, "\n".join(old).rstrip("\n"), "\n".join(new).rstrip("\n")

def run_check(repo, prop):
    env = dict(os.environ, GOFLAGS="-mod=mod", GOPROXY="off", GOSUMDB="off", GOTOOLCHAIN="local")
    p = subprocess.run([GOVC, "-repo", repo, "-prop", prop, "-no-evidence", "-replaydir", os.path.join(repo, ".replay")],
                       capture_output=True, text=True, env=env)
    return p.returncode, p.stdout + p.stderr

def main():
    filt = None
    args = sys.argv[1:]
    if "-k" in args:
        filt = args[args.index("-k") + 1]
    muts = sorted(glob.glob(os.path.join(ROOT, "mutants", "*.mut")))
    if filt:
        muts = [m for m in muts if filt in m]
    ok = True
    results = []
    for m in muts:
        meta, old, new = parse(m)
        name = os.path.basename(m)
        tmp = tempfile.mkdtemp(prefix="govc-mut-")
        try:
            scratch = os.path.join(tmp, "repo")
            shutil.copytree(REPO, scratch, ignore=shutil.ignore_patterns(".git"))
            f = os.path.join(scratch, meta["file"])
            src = open(f).read()
            if src.count(old) != 1:
                print(f"SELFTEST-ERROR {name}: pattern occurs {src.count(old)} times in {meta['file']}")
                ok = False
                continue
            open(f, "w").write(src.replace(old, new))
            if os.environ.get("SELFTEST_BUILD"):
                b = subprocess.run(["go", "build", "./..."], cwd=scratch, capture_output=True, text=True,
                                   env=dict(os.environ, GOFLAGS="-mod=mod", GOPROXY="off", GOSUMDB="off"))
                if b.returncode != 0:
                    print(f"SELFTEST-ERROR {name}: mutant does not compile\n{b.stderr[:500]}")
                    ok = False
                    continue
            prop = meta["property"]
            rc, out = run_check(scratch, prop)
            viol = [l for l in out.split("\n") if l.startswith("VIOLATION property=" + prop + " ")]
            exp = meta.get("expect", "")
            hit = rc == 1 and viol and (not exp or any(exp in l for l in out.split("\n")))
            status = "caught" if hit else "MISSED"
            if not hit:
                ok = False
            quiet_bad = []
            for q in meta.get("also-quiet", "").split():
                rc2, out2 = run_check(scratch, q)
                if rc2 != 0:
                    quiet_bad.append(q)
            if quiet_bad:
                status += " (false alarm on " + ",".join(quiet_bad) + ")"
                ok = False
            print(f"{status:8s} {name:45s} property={prop} rc={rc} violations={len(viol)}")
            if os.environ.get("SELFTEST_SHOW"):
                for l in viol:
                    print("   ", l[:220])
            if not hit and os.environ.get("SELFTEST_VERBOSE"):
                print(out[-2000:])
            results.append({"mutant": name, "property": prop, "status": status, "replayed": sum(1 for l in viol if not l.rstrip().endswith("no-failing-input-found"))})
        finally:
            shutil.rmtree(tmp, ignore_errors=True)
    lr = os.path.join(ROOT, "last_run.json")
    if filt and os.path.exists(lr):  # a filtered run updates its entries only
        old = {r["mutant"]: r for r in json.load(open(lr))}
        old.update({r["mutant"]: r for r in results})
        results = [old[k] for k in sorted(old)]
    json.dump(results, open(lr, "w"), indent=1)
    print("selftest:", "all mutants caught" if ok else "FAILURES")
    return 0 if ok else 1

if __name__ == "__main__":
    sys.exit(main())

package stream

// Demonstration for finding D9 (properties C02, C12): obligation
// (*Reader).Read/post#eof. Run in-package through `go test -overlay`
// (see /verif/findings/run.sh). A source that returns its last byte together
// with io.EOF (allowed by the io.Reader contract; testing/iotest.DataErrReader)
// makes the EOF probe after a full-size final chunk accept one byte of
// trailing data as a clean end of stream.

import (
	"bytes"
	"io"
	"testing"
	"testing/iotest"
)

func TestVerifD9TrailingByteWithEOF(t *testing.T) {
	key := make([]byte, 32)
	var ct bytes.Buffer
	w, err := NewWriter(key, &ct)
	if err != nil {
		t.Fatal(err)
	}
	if _, err := w.Write(make([]byte, ChunkSize)); err != nil { // exactly one full final chunk
		t.Fatal(err)
	}
	if err := w.Close(); err != nil {
		t.Fatal(err)
	}
	tampered := append(append([]byte{}, ct.Bytes()...), 0x42) // one byte of trailing garbage
	// plain bytes.Reader: rejected, as it must be
	r1, _ := NewReader(key, bytes.NewReader(tampered))
	if _, err := io.ReadAll(r1); err == nil {
		t.Fatalf("trailing data accepted from a plain reader")
	}
	// same bytes, delivered with data and EOF in one call
	r2, _ := NewReader(key, iotest.DataErrReader(bytes.NewReader(tampered)))
	if _, err := io.ReadAll(r2); err == nil {
		t.Fatalf("VIOLATION: one byte of trailing data accepted as a clean end of stream when the source returns data together with io.EOF")
	}
}

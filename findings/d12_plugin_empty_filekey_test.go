package plugin

// Demonstration for finding D12 (property C16), obligation
// (*Identity).Unwrap/inv-pres#loop2.keyonce: duplicate detection tests
// `fileKey != nil`, but a file-key stanza with an empty body yields a nil
// slice, so a plugin can send any number of (empty) file-key messages without
// the client reporting "duplicated file-key". Run through findings/run.sh.

import (
	"errors"
	"os"
	"path/filepath"
	"strings"
	"testing"

	"filippo.io/age"
)

func TestVerifD12RepeatedEmptyFileKey(t *testing.T) {
	dir := t.TempDir()
	script := "#!/bin/sh\n" +
		"while IFS= read -r line; do case \"$line\" in '-> done'*) break;; esac; done\n" +
		"read -r body\n" +
		"printf -- '-> file-key 0\\n\\n'\nread -r a; read -r b\n" +
		"printf -- '-> file-key 0\\n\\n'\nread -r a; read -r b\n" +
		"printf -- '-> done\\n\\n'\n"
	if err := os.WriteFile(filepath.Join(dir, "age-plugin-dupkey"), []byte(script), 0755); err != nil {
		t.Fatal(err)
	}
	testOnlyPluginPath = dir
	defer func() { testOnlyPluginPath = "" }()
	id, err := NewIdentityWithoutData("dupkey", &ClientUI{})
	if err != nil {
		t.Fatal(err)
	}
	_, err = id.Unwrap([]*age.Stanza{{Type: "x", Args: []string{"y"}, Body: []byte("z")}})
	// the conversation must be rejected as a protocol error; before the fix it
	// ended as a plain "incorrect identity" (no duplicate reported)
	if err == nil || errors.Is(err, age.ErrIncorrectIdentity) || !(strings.Contains(err.Error(), "duplicated file-key") || strings.Contains(err.Error(), "malformed file-key")) {
		t.Fatalf("VIOLATION: the plugin sent two file-key messages and the client did not report a protocol error (err = %v)", err)
	}
}

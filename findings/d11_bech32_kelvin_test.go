package age

// Demonstrations for finding D11 (properties C09 and C14), obligations
// bech32.Decode/post#ascii, bech32.Decode/safety#slice.t61 and
// bech32.Decode/inv-init#loop2.1. Decode lower-cases the string AFTER its
// printable-ASCII checks; Unicode case folding maps U+212A KELVIN SIGN to 'k',
// so (1) a non-ASCII spelling of a key is accepted and (2) because three bytes
// shrink to one, fewer than six data symbols can pass the length check and the
// checksum, and the slice data[:len(data)-6] panics.
// Run in-package through findings/run.sh (go test -overlay).

import (
	"strings"
	"testing"
)

func TestVerifD11KelvinSignAccepted(t *testing.T) {
	id, err := GenerateX25519Identity()
	if err != nil {
		t.Fatal(err)
	}
	for i := 0; i < 2000 && !strings.Contains(id.String(), "K"); i++ {
		id, _ = GenerateX25519Identity()
	}
	s := id.String() // upper case
	if !strings.Contains(s[16:], "K") {
		t.Skip("no K in the data part")
	}
	mangled := s[:16] + strings.Replace(s[16:], "K", "K", 1)
	if got, err := ParseX25519Identity(mangled); err == nil {
		t.Fatalf("VIOLATION: non-ASCII spelling %q accepted as identity %s", mangled, got.Recipient())
	}
}

func TestVerifD11KelvinSignPanics(t *testing.T) {
	// hrp "A8UE-+" with three data symbols 'k' has a valid checksum
	s := "A8UE-+1KKK"
	defer func() {
		if r := recover(); r != nil {
			t.Fatalf("VIOLATION: ParseX25519Recipient(%q) panicked: %v", s, r)
		}
	}()
	if _, err := ParseX25519Recipient(s); err == nil {
		t.Fatalf("accepted %q", s)
	}
}

package stream

// Demonstration for finding D17 (property C12): obligation
// (*Reader).Read/post#cleaneof. The end-of-input probe after a full-size final
// chunk was a single src.Read of one byte, and a result of (0, nil) - which
// the io.Reader contract allows ("nothing happened; in particular it does not
// indicate EOF") - was reported as "trailing data after end of encrypted
// file". A valid file was accepted or rejected depending on how its source
// delivers the end of input. (First noticed by a seeding sub-agent reading the
// unchanged code.) Run in-package through findings/run.sh.

import (
	"bytes"
	"io"
	"testing"
)

// verifD17Src returns (0, nil) once when its data is exhausted, then io.EOF.
type verifD17Src struct {
	r     *bytes.Reader
	idled bool
}

func (s *verifD17Src) Read(p []byte) (int, error) {
	if s.r.Len() == 0 && !s.idled {
		s.idled = true
		return 0, nil
	}
	return s.r.Read(p)
}

func TestVerifD17ProbeZeroNil(t *testing.T) {
	key := make([]byte, 32)
	for _, size := range []int{ChunkSize, 2 * ChunkSize} {
		var ct bytes.Buffer
		w, err := NewWriter(key, &ct)
		if err != nil {
			t.Fatal(err)
		}
		plain := bytes.Repeat([]byte{7}, size)
		w.Write(plain)
		if err := w.Close(); err != nil {
			t.Fatal(err)
		}
		r1, _ := NewReader(key, bytes.NewReader(ct.Bytes()))
		out1, err1 := io.ReadAll(r1)
		if err1 != nil || !bytes.Equal(out1, plain) {
			t.Fatalf("plain reader: %v", err1)
		}
		r2, _ := NewReader(key, &verifD17Src{r: bytes.NewReader(ct.Bytes())})
		out2, err2 := io.ReadAll(r2)
		if err2 != nil || !bytes.Equal(out2, plain) {
			t.Errorf("VIOLATION: size %d: the same valid file read through a source that reports (0, nil) once at the end of its data: err=%v (plain reader: nil)", size, err2)
		}
		// trailing data is still refused under that schedule
		r3, _ := NewReader(key, &verifD17Src{r: bytes.NewReader(append(ct.Bytes(), 0x42))})
		if _, err := io.ReadAll(r3); err == nil {
			t.Errorf("VIOLATION: size %d: trailing byte accepted", size)
		}
	}
}

package age

// Demonstration for finding D15 (property C18), obligations
// ParseIdentities/post#toolong and ParseRecipients/post#toolong (and the CLI's
// parseIdentities / parseRecipientsFile): key files were read through
// io.LimitReader(f, 16 MiB) and whatever lay beyond the limit was dropped
// silently - a malformed line after the 16 MiB mark did not fail the file.
// (First noticed by a seeding sub-agent reading the unchanged code.)
// Run through findings/run.sh.

import (
	"strings"
	"testing"
)

func verifD15File(first string) string {
	var b strings.Builder
	b.WriteString(first + "\n")
	c := "#" + strings.Repeat("x", 62) + "\n"
	for b.Len()+len(c) <= 1<<24 {
		b.WriteString(c)
	}
	for b.Len() < 1<<24 {
		b.WriteString("\n")
	}
	b.WriteString("this is not a key\n")
	return b.String()
}

func TestVerifD15MalformedLineBeyondLimit(t *testing.T) {
	id, err := GenerateX25519Identity()
	if err != nil {
		t.Fatal(err)
	}
	if ids, err := ParseIdentities(strings.NewReader(verifD15File(id.String()))); err == nil {
		t.Errorf("VIOLATION: identities file with a malformed last line (beyond 16 MiB) accepted with %d key(s)", len(ids))
	}
	if recs, err := ParseRecipients(strings.NewReader(verifD15File(id.Recipient().String()))); err == nil {
		t.Errorf("VIOLATION: recipients file with a malformed last line (beyond 16 MiB) accepted with %d key(s)", len(recs))
	}
	// a file below the limit is still read whole
	small := id.String() + "\n# comment\n" + id.String() + "\n"
	if ids, err := ParseIdentities(strings.NewReader(small)); err != nil || len(ids) != 2 {
		t.Errorf("VIOLATION: small file: %d keys, err=%v", len(ids), err)
	}
}

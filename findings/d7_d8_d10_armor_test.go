package armor

// Demonstrations for findings D7, D8, D10 (property C08; D10 also C13).
// Run in-package through findings/run.sh (go test -overlay).

import (
	"bytes"
	"io"
	"strings"
	"testing"
)

// D7: obligation (*armoredWriter).Close/post#hdr. NewWriter + Close with no
// Write emits only the END line, which does not de-armor (to the empty stream).
func TestVerifD7CloseWithoutWrite(t *testing.T) {
	var buf bytes.Buffer
	w := NewWriter(&buf)
	if err := w.Close(); err != nil {
		t.Fatal(err)
	}
	out, err := io.ReadAll(NewReader(bytes.NewReader(buf.Bytes())))
	if err != nil || len(out) != 0 {
		t.Fatalf("VIOLATION: armoring the empty stream with zero writes produced %q, which de-armors to (%q, %v)", buf.String(), out, err)
	}
}

// D8: obligation (*armoredReader).Read/post#nonempty. An empty body line after
// full lines is accepted although the writer never produces it (non-canonical).
func TestVerifD8EmptyBodyLineAccepted(t *testing.T) {
	var buf bytes.Buffer
	w := NewWriter(&buf)
	w.Write(bytes.Repeat([]byte{7}, 48)) // exactly one full line
	w.Close()
	canonical := buf.String()
	mangled := strings.Replace(canonical, "\n"+Footer, "\n\n"+Footer, 1) // insert an empty line before END
	if mangled == canonical {
		t.Fatal("test setup")
	}
	out, err := io.ReadAll(NewReader(strings.NewReader(mangled)))
	if err == nil {
		t.Fatalf("VIOLATION: armor with an empty body line accepted (%d bytes), although re-armoring gives different text", len(out))
	}
	if _, ok := err.(*Error); !ok {
		t.Fatalf("error is %T, want *armor.Error", err)
	}
}

// D10: obligation (*armoredReader).Read/post#clean. After Read has returned an
// error, a later Read returns data with a nil error.
func TestVerifD10DataAfterError(t *testing.T) {
	var buf bytes.Buffer
	w := NewWriter(&buf)
	w.Write([]byte("short line payload"))
	w.Close()
	text := buf.String()
	text = text[:strings.Index(text, Footer)] + "garbage instead of footer\n"
	r := NewReader(strings.NewReader(text))
	p := make([]byte, 100)
	n, err := r.Read(p)
	if err == nil {
		t.Skipf("first read returned data (%d bytes): different path", n)
	}
	n2, err2 := r.Read(p)
	if err2 == nil && n2 > 0 {
		t.Fatalf("VIOLATION: Read returned error %v, then a later Read returned %d bytes with a nil error", err, n2)
	}
}

// D10, second path: a body line that fails to decode leaves the whole scratch
// buffer queued as "unread" data.
func TestVerifD10DataAfterDecodeError(t *testing.T) {
	text := Header + "\n" + "!!!! not base64 !!!!\n" + Footer + "\n"
	r := NewReader(strings.NewReader(text))
	p := make([]byte, 100)
	_, err := r.Read(p)
	if err == nil {
		t.Fatal("garbage line accepted")
	}
	n2, err2 := r.Read(p)
	if err2 == nil && n2 > 0 {
		t.Fatalf("VIOLATION: Read returned error %v, then a later Read returned %d bytes with a nil error", err, n2)
	}
}

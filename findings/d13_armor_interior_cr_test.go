package armor

// Demonstration for finding D13 (property C08), obligation
// (*armoredReader).Read/post#canon: Go's base64 decoder skips '\r' and '\n'
// even in Strict mode, so a body line with a carriage return in the middle
// (or several at the end) is accepted although it does not re-armor to the
// same text within the documented tolerances. Run through findings/run.sh.

import (
	"bytes"
	"errors"
	"io"
	"strings"
	"testing"
)

func TestVerifD13InteriorCarriageReturn(t *testing.T) {
	for _, body := range []string{"QUJD\rREVG", "QUJDREVG\r\r", "\rQUJDREVG", "QUJDRE\r\rVG"} {
		text := Header + "\n" + body + "\n" + Footer + "\n"
		got, err := io.ReadAll(NewReader(strings.NewReader(text)))
		if err == nil {
			buf := &bytes.Buffer{}
			w := NewWriter(buf)
			w.Write(got)
			w.Close()
			t.Errorf("VIOLATION: armor body line %q was accepted (decoded %q) but re-armors to %q", body, got, buf.String())
			continue
		}
		var ae *Error
		if !errors.As(err, &ae) {
			t.Errorf("VIOLATION: body line %q failed with %T, not *armor.Error", body, err)
		}
	}
}

package main

// Demonstration for finding D3 (property C15), obligation
// cmd/age.decrypt/post#delivered: decrypt ignores the result of
// out.Write(nil). When the encrypted payload is empty, io.Copy performs no
// write, so a failure to create the -o file is never noticed and age exits 0
// without having produced its output. Run through findings/run.sh.

import (
	"bytes"
	"os"
	"path/filepath"
	"testing"

	"filippo.io/age"
)

func TestVerifD3EmptyPayloadUncreatableOutput(t *testing.T) {
	id, err := age.GenerateX25519Identity()
	if err != nil {
		t.Fatal(err)
	}
	buf := &bytes.Buffer{}
	w, err := age.Encrypt(buf, id.Recipient())
	if err != nil {
		t.Fatal(err)
	}
	if err := w.Close(); err != nil { // empty plaintext
		t.Fatal(err)
	}
	name := filepath.Join(t.TempDir(), "no-such-directory", "out")
	out := newLazyOpener(name)

	testOnlyPanicInsteadOfExit = true
	defer func() { testOnlyPanicInsteadOfExit = false }()
	exited := false
	func() {
		defer func() {
			if r := recover(); r != nil {
				if !testOnlyDidExit {
					panic(r)
				}
				exited = true
			}
		}()
		decrypt([]age.Identity{id}, buf, out)
		if err := out.Close(); err != nil {
			errorf("failed to close output file %q: %v", name, err)
		}
	}()
	_, statErr := os.Stat(name)
	if !exited && statErr != nil {
		t.Fatalf("VIOLATION: decrypt returned normally (exit status 0) but the output file %q was not created: %v", name, statErr)
	}
}

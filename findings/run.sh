#!/bin/sh
# usage: findings/run.sh <test file under /verif/findings> <package dir relative to repo> [repo]
# Injects the test into the package with go test -overlay (nothing is written to the repo).
set -e
T="$1"; PKG="$2"; REPO="${3:-/repo}"
export GOFLAGS=-mod=mod GOPROXY=off GOSUMDB=off GOTOOLCHAIN=local
TMP=$(mktemp -d)
trap 'rm -rf "$TMP"' EXIT
NAME=$(basename "$T")
DEST=$(readlink -m "$REPO/$PKG/zz_$NAME")
printf '{"Replace":{"%s":"%s"}}\n' "$DEST" "$(readlink -f "$T")" > "$TMP/ov.json"
RUN=$(grep -o 'func Test[A-Za-z0-9_]*' "$T" | sed 's/func //' | paste -sd'|')
cd "$REPO/$PKG" && go test -overlay "$TMP/ov.json" -vet=off -count=1 -timeout 120s -run "^($RUN)\$" .

package agessh

// Demonstration for finding D1 (property C19), obligations
// (*EncryptedSSHIdentity).Unwrap/post#errkeeps and post#typednil: the decrypted
// key is stored in i.decrypted BEFORE it is compared with the declared public
// key, so a private-key file that does not belong to the public key leaves a
// trace: the next call skips the passphrase prompt and silently uses the
// unvalidated key. Run in-package through findings/run.sh (go test -overlay).

import (
	"bytes"
	"crypto/ed25519"
	"crypto/rand"
	"encoding/pem"
	"io"
	"testing"

	"filippo.io/age"
	"golang.org/x/crypto/ssh"
)

func TestVerifD1MismatchedKeyIsCached(t *testing.T) {
	pubA, _, _ := ed25519.GenerateKey(rand.Reader)
	_, privB, _ := ed25519.GenerateKey(rand.Reader)
	sshPubA, err := ssh.NewPublicKey(pubA)
	if err != nil {
		t.Fatal(err)
	}
	block, err := ssh.MarshalPrivateKeyWithPassphrase(privB, "", []byte("pw"))
	if err != nil {
		t.Fatal(err)
	}
	pemB := pem.EncodeToMemory(block)
	prompts := 0
	id, err := NewEncryptedSSHIdentity(sshPubA, pemB, func() ([]byte, error) { prompts++; return []byte("pw"), nil })
	if err != nil {
		t.Fatal(err)
	}
	// a file addressed to the DECLARED public key A
	rA, _ := NewEd25519Recipient(sshPubA)
	var fileA bytes.Buffer
	w, _ := age.Encrypt(&fileA, rA)
	w.Write([]byte("for A"))
	w.Close()
	// a file addressed to the key B that is actually in the private-key file
	sshPubB, _ := ssh.NewPublicKey(privB.Public())
	rB, _ := NewEd25519Recipient(sshPubB)
	var fileB bytes.Buffer
	w, _ = age.Encrypt(&fileB, rB)
	w.Write([]byte("for B"))
	w.Close()

	_, err1 := age.Decrypt(bytes.NewReader(fileA.Bytes()), id)
	if err1 == nil {
		t.Fatal("mismatched key accepted")
	}
	if prompts != 1 {
		t.Fatalf("prompts=%d", prompts)
	}
	// history-freedom: the same call again must behave the same (prompt, same error)
	_, err2 := age.Decrypt(bytes.NewReader(fileA.Bytes()), id)
	if prompts != 2 || err2 == nil || err2.Error() != err1.Error() {
		t.Errorf("VIOLATION: outcome depends on history: first call: prompts=1 err=%q; second call: prompts=%d err=%v", err1, prompts, err2)
	}
	// and the unvalidated key B must not have been remembered
	before := prompts
	if r, err := age.Decrypt(bytes.NewReader(fileB.Bytes()), id); err == nil {
		out, _ := io.ReadAll(r)
		t.Errorf("VIOLATION: file for the unvalidated key decrypted (%q) with %d further prompts", out, prompts-before)
	}
}

package agessh

// Demonstration for finding D16 (property C19), obligation
// (*EncryptedSSHIdentity).Unwrap/post#histfree: once a key is cached, Unwrap
// delegated at once to the decrypted identity, whose per-stanza validation is
// stricter than the match loop of the fresh path. A file that is NOT addressed
// to the identity but carries a malformed stanza of its SSH key type (another
// tag, wrong argument count) gave "incorrect identity" on a fresh identity -
// so Decrypt went on to the next identity and opened the file - and a hard
// "invalid ssh-ed25519 recipient block" error, failing the whole Decrypt, on
// an identity that had opened some other file before. (History dependence
// first noticed by a seeding sub-agent reading the unchanged code.)
// Run in-package through findings/run.sh (go test -overlay).

import (
	"bytes"
	"crypto/ed25519"
	"crypto/rand"
	"encoding/pem"
	"io"
	"testing"

	"filippo.io/age"
	"golang.org/x/crypto/ssh"
)

type verifD16Odd struct{}

func (verifD16Odd) Wrap(fileKey []byte) ([]*age.Stanza, error) {
	// same type as the identity, another key's tag, one argument instead of two
	return []*age.Stanza{{Type: "ssh-ed25519", Args: []string{"AAAAAA"}, Body: make([]byte, 32)}}, nil
}

func TestVerifD16CachedKeyChangesErrorKind(t *testing.T) {
	pub, priv, _ := ed25519.GenerateKey(rand.Reader)
	sshPub, err := ssh.NewPublicKey(pub)
	if err != nil {
		t.Fatal(err)
	}
	block, err := ssh.MarshalPrivateKeyWithPassphrase(priv, "", []byte("pw"))
	if err != nil {
		t.Fatal(err)
	}
	newID := func() *EncryptedSSHIdentity {
		id, err := NewEncryptedSSHIdentity(sshPub, pem.EncodeToMemory(block), func() ([]byte, error) { return []byte("pw"), nil })
		if err != nil {
			t.Fatal(err)
		}
		return id
	}
	other, _ := age.GenerateX25519Identity()
	// file X: for `other`, plus an odd ssh-ed25519 stanza that is not ours
	var fileX bytes.Buffer
	w, err := age.Encrypt(&fileX, verifD16Odd{}, other.Recipient())
	if err != nil {
		t.Fatal(err)
	}
	w.Write([]byte("for other"))
	w.Close()
	// file M: for the SSH key
	rM, _ := NewEd25519Recipient(sshPub)
	var fileM bytes.Buffer
	w, _ = age.Encrypt(&fileM, rM)
	w.Write([]byte("mine"))
	w.Close()

	open := func(id *EncryptedSSHIdentity) (string, error) {
		r, err := age.Decrypt(bytes.NewReader(fileX.Bytes()), id, other)
		if err != nil {
			return "", err
		}
		b, err := io.ReadAll(r)
		return string(b), err
	}
	fresh := newID()
	out1, err1 := open(fresh)
	used := newID()
	if _, err := age.Decrypt(bytes.NewReader(fileM.Bytes()), used); err != nil {
		t.Fatal(err)
	}
	out2, err2 := open(used)
	if (err1 == nil) != (err2 == nil) || out1 != out2 {
		t.Errorf("VIOLATION: the outcome of decrypting the same file depends on earlier calls: fresh identity: %q, %v; identity that opened another file before: %q, %v", out1, err1, out2, err2)
	}
}

package main

// Demonstration for finding D2 (property C15), obligations
// cmd/age-keygen.generate/post#delivered and convert/post#delivered: the key
// file lines and the converted recipients are written with fmt.Fprintf and the
// results are discarded, so age-keygen exits 0 when its output could not be
// written (here: /dev/full, every write fails with ENOSPC).
// Run through findings/run.sh.

import (
	"os"
	"os/exec"
	"strings"
	"testing"

	"filippo.io/age"
)

func TestVerifD2Helper(t *testing.T) {
	mode := os.Getenv("VERIF_D2_MODE")
	if mode == "" {
		t.Skip("helper")
	}
	out, err := os.OpenFile("/dev/full", os.O_WRONLY, 0)
	if err != nil {
		os.Exit(77)
	}
	switch mode {
	case "generate":
		generate(out)
	case "convert":
		id, _ := age.GenerateX25519Identity()
		convert(strings.NewReader(id.String()+"\n"), out)
	}
	os.Exit(0) // what main does after generate/convert return
}

func runD2(t *testing.T, mode string) {
	cmd := exec.Command(os.Args[0], "-test.run=^TestVerifD2Helper$")
	cmd.Env = append(os.Environ(), "VERIF_D2_MODE="+mode)
	err := cmd.Run()
	if ee, ok := err.(*exec.ExitError); ok && ee.ExitCode() == 77 {
		t.Skip("/dev/full not available")
	}
	if err == nil {
		t.Fatalf("VIOLATION: age-keygen %s exited with status 0 although every write to its output failed", mode)
	}
}

func TestVerifD2GenerateFullDisk(t *testing.T) { runD2(t, "generate") }
func TestVerifD2ConvertFullDisk(t *testing.T)  { runD2(t, "convert") }

package main

// Demonstration for finding D14 (property C18), obligation
// cmd/age.parseRecipientsFile/callsite#warningf#1: a corrupted SSH public key
// of a SUPPORTED type (still valid base64, type prefix intact) makes
// parseRecipient fail, but sshKeyType only looks at the type prefix, so the
// line is skipped with an "unsupported SSH key" warning and the rest of the
// file is used, instead of the whole file being rejected with the line
// number. (First noticed by a seeding sub-agent reading the unchanged code.)
// Run through findings/run.sh.

import (
	"os"
	"path/filepath"
	"strings"
	"testing"
)

func TestVerifD14CorruptSupportedSSHKeySkipped(t *testing.T) {
	const good = "age1ql3z7hjy54pw3hyww5ayyfg7zqgvc7w3j2elw8zmrj2kg5sfn9aqmcac8p"
	const ed = "ssh-ed25519 AAAAC3NzaC1lZDI1NTE5AAAAIGb8pYm1PUTtoBnFvWL6kUqIOeIEo6q6lEIWxMSpXuFL"
	for _, bad := range []string{
		ed[:len(ed)-4],           // truncated key, still valid base64
		ed[:len(ed)-8] + "AAAA",  // wrong length after re-padding
	} {
		name := filepath.Join(t.TempDir(), "recs.txt")
		if err := os.WriteFile(name, []byte("# recipients\n"+good+"\n"+bad+"\n"), 0600); err != nil {
			t.Fatal(err)
		}
		recs, err := parseRecipientsFile(name)
		if err == nil {
			t.Errorf("VIOLATION: line 3 (%q) is not a valid key of the supported type ssh-ed25519, yet the file was accepted with %d recipient(s)", bad, len(recs))
		} else if !strings.Contains(err.Error(), "line 3") {
			t.Errorf("VIOLATION: the error does not name line 3: %v", err)
		}
	}
}

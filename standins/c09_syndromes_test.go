package bech32

// Bounded stand-in for the part of property C09 that no contract here decides:
// "every string differing from a valid native key string in at most four
// characters of the data part is rejected". Labelled BOUNDED, never counted as
// proved. It runs the REAL polymod (injected with go test -overlay).
//
// Argument. polymod is the fold of polystep (proved, loop invariant) and
// polystep is GF(2)-linear (proved, QF_BV lemmas), so for a fixed length
//     polymod(v xor e) = polymod(v) xor S(e),   S(e) = polymod(e) xor polymod(0),
// and S is additive over error patterns with disjoint support. A corrupted
// string is accepted iff S(e) = 0. The test computes S for all 58*31
// single-symbol errors of the two native lengths with the real polymod, checks
// additivity on every two-symbol error by calling polymod on it, and then
// decides by meet-in-the-middle that no XOR of syndromes of 1..4 errors at
// distinct positions is zero: exhaustive over all
//   sum_{w=1..4} C(58,w)*31^w  = 391,874,633,... error patterns (printed below).

import (
	"fmt"
	"math/big"
	"testing"
)

func syndromeSearch(t *testing.T, hrp string, nData int) (singles, pairs int, patterns *big.Int) {
	h := len(hrpExpand(hrp))
	n := h + nData
	zero := make([]byte, n)
	base := polymod(zero)
	type sv struct {
		pos int
		val byte
		syn uint32
	}
	var S []sv
	for p := 0; p < nData; p++ {
		for v := byte(1); v < 32; v++ {
			e := make([]byte, n)
			e[h+p] = v
			s := polymod(e) ^ base
			if s == 0 {
				t.Fatalf("VIOLATION: single substitution at data position %d (xor %d) is undetected for hrp %q", p, v, hrp)
			}
			S = append(S, sv{p, v, s})
		}
	}
	singles = len(S)
	// weight 2 (with additivity checked on the real function) and the pair-sum table
	type pr struct{ a, b int32 }
	table := make(map[uint32][]pr, 1<<21)
	bySyn := make(map[uint32][]int32, len(S))
	for i, x := range S {
		bySyn[x.syn] = append(bySyn[x.syn], int32(i))
	}
	e := make([]byte, n)
	for i := 0; i < len(S); i++ {
		for j := i + 1; j < len(S); j++ {
			if S[i].pos == S[j].pos {
				continue
			}
			x := S[i].syn ^ S[j].syn
			e[h+S[i].pos], e[h+S[j].pos] = S[i].val, S[j].val
			if got := polymod(e) ^ base; got != x {
				t.Fatalf("VIOLATION: polymod is not additive on errors at %d,%d: %x != %x", S[i].pos, S[j].pos, got, x)
			}
			e[h+S[i].pos], e[h+S[j].pos] = 0, 0
			if x == 0 {
				t.Fatalf("VIOLATION: double substitution at data positions %d,%d undetected for hrp %q", S[i].pos, S[j].pos, hrp)
			}
			pairs++
			// weight 3: x equals the syndrome of a single error at a third position
			for _, k := range bySyn[x] {
				if S[k].pos != S[i].pos && S[k].pos != S[j].pos {
					t.Fatalf("VIOLATION: triple substitution at data positions %d,%d,%d undetected for hrp %q", S[i].pos, S[j].pos, S[k].pos, hrp)
				}
			}
			table[x] = append(table[x], pr{int32(i), int32(j)})
		}
	}
	// weight 4: two pair sums collide on four distinct positions
	for _, ps := range table {
		for a := 0; a < len(ps); a++ {
			for b := a + 1; b < len(ps); b++ {
				p1, p2, p3, p4 := S[ps[a].a].pos, S[ps[a].b].pos, S[ps[b].a].pos, S[ps[b].b].pos
				if p1 != p3 && p1 != p4 && p2 != p3 && p2 != p4 {
					t.Fatalf("VIOLATION: quadruple substitution at data positions %d,%d,%d,%d undetected for hrp %q", p1, p2, p3, p4, hrp)
				}
			}
		}
	}
	patterns = new(big.Int)
	for w := int64(1); w <= 4; w++ {
		c := new(big.Int).Binomial(int64(nData), w)
		c.Mul(c, new(big.Int).Exp(big.NewInt(31), big.NewInt(w), nil))
		patterns.Add(patterns, c)
	}
	return
}

func TestVerifBoundedC09Syndromes(t *testing.T) {
	for _, c := range []struct {
		hrp   string
		nData int
	}{{"age", 58}, {"age-secret-key-", 58}} {
		s, p, n := syndromeSearch(t, c.hrp, c.nData)
		fmt.Printf("BOUNDED C09 hrp=%q data_symbols=%d single_syndromes=%d pair_syndromes=%d error_patterns_covered=%s exhaustive=true\n", c.hrp, c.nData, s, p, n.String())
	}
}

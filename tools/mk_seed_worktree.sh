#!/bin/sh
# usage: tools/mk_seed_worktree.sh <dir>   -- scratch git worktree of /repo for a seeding sub-agent, without the contract files
set -e
D="$1"
mkdir -p "$D"
git -C /repo worktree add --detach "$D/repo" HEAD >/dev/null 2>&1
cd "$D/repo"
for f in $(git ls-files | grep _verif.go); do
  git update-index --assume-unchanged "$f"; rm -f "$f"
done
mkdir -p "$D/out"
echo "$D/repo"

#!/bin/sh
# usage: tools/try_seed.sh <change dir name> [property]   -- applies the seeded patch to a scratch copy and runs the property check
set -e
D=/verif/seeded/$1
P=${2:-$(python3 -c "import json;print(json.load(open('$D/meta.json'))['property'])")}
T=$(mktemp -d /tmp/govc-try-XXXXXX)
trap 'rm -rf "$T"' EXIT
cp -r "${BASE:-/repo}" "$T/repo"; rm -rf "$T/repo/.git"
(cd "$T/repo" && git init -q && git apply "$D/patch.diff")
export GOFLAGS=-mod=mod GOPROXY=off GOSUMDB=off GOTOOLCHAIN=local
${GOVC:-/verif/bin/govc} -repo "$T/repo" -verif /verif -prop "$P" -no-evidence -replaydir "$T/replay" 2>&1 | grep -v "^VIOLATION" | tail -${TAILN:-6} | cut -c1-300

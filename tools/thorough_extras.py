#!/usr/bin/env python3
"""Thorough-tier extras for one property, run after govc:
  * the regression demonstrations of the defects this property's obligations once exposed
    (findings/INDEX), executed against the real code of the tree under check;
  * bounded stand-ins (standins/INDEX), labelled bounded, never counted as proved.
A failing demonstration or stand-in is a violation WITH a failing input: it prints
VIOLATION property=<id> replay=<test file> (no no-failing-input-found suffix).
Results are merged into evidence/<id>.json (coverage.demonstrations / coverage.bounded).
usage: tools/thorough_extras.py <property id> <repo>     exit status: 0 ok, 1 violation
"""
import os, sys, json, subprocess, tempfile, re

VERIF = os.path.dirname(os.path.dirname(os.path.abspath(__file__)))
ENV = dict(os.environ, GOFLAGS="-mod=mod", GOPROXY="off", GOSUMDB="off", GOTOOLCHAIN="local")

def run_overlay(test_file, pkg, repo):
    tmp = tempfile.mkdtemp(prefix="govc-extra-")
    try:
        dest = os.path.normpath(os.path.join(repo, pkg, "zz_" + os.path.basename(test_file)))
        ov = os.path.join(tmp, "ov.json")
        json.dump({"Replace": {dest: os.path.realpath(test_file)}}, open(ov, "w"))
        tests = re.findall(r"func (Test\w+)", open(test_file).read())
        p = subprocess.run(["go", "test", "-overlay", ov, "-vet=off", "-v", "-count=1", "-timeout", "600s",
                            "-run", "^(%s)$" % "|".join(tests), "."],
                           cwd=os.path.join(repo, pkg), capture_output=True, text=True, env=ENV)
        return p.returncode, p.stdout + p.stderr
    finally:
        subprocess.run(["rm", "-rf", tmp])

def index(path, prop):
    out = []
    for line in open(path):
        if line.startswith("#") or not line.strip():
            continue
        f = line.split(None, 4)
        if f[0] == prop:
            out.append(f)
    return out

def main():
    prop, repo = sys.argv[1], sys.argv[2]
    rc = 0
    demos, bounded = [], []
    for f in index(os.path.join(VERIF, "findings", "INDEX"), prop):
        tf = os.path.join(VERIF, "findings", f[1])
        code, out = run_overlay(tf, f[2], repo)
        ok = code == 0
        demos.append({"file": tf, "package": f[2], "passes": ok})
        if ok:
            print("demonstration %s: passes on the current tree" % f[1])
        else:
            for l in out.split("\n"):
                if "VIOLATION" in l or l.startswith("panic") or l.startswith("--- FAIL"):
                    print("  " + l.strip()[:300])
            print("VIOLATION property=%s replay=%s" % (prop, tf))
            rc = 1
    for f in index(os.path.join(VERIF, "standins", "INDEX"), prop):
        tf = os.path.join(VERIF, "standins", f[1])
        code, out = run_overlay(tf, f[2], repo)
        lines = [l.strip() for l in out.split("\n") if l.startswith("BOUNDED ")]
        bounded.append({"function": f[3], "bound": f[4].strip(), "file": tf, "passes": code == 0, "exhaustive": True, "output": lines})
        if code == 0:
            for l in lines:
                print(l)
        else:
            for l in out.split("\n"):
                if "VIOLATION" in l:
                    print("  " + l.strip()[:300])
            print("VIOLATION property=%s replay=%s" % (prop, tf))
            rc = 1
    ev = os.path.join(VERIF, "evidence", prop + ".json")
    if os.path.exists(ev) and not os.environ.get("GOVC_NO_EVIDENCE"):
        d = json.load(open(ev))
        cov = d.setdefault("coverage", {})
        cov["demonstrations"] = demos
        cov["bounded"] = bounded
        if bounded:
            cov["bounded_note"] = "bounded stand-ins are NOT part of obligations/discharged and are not claimed as proved"
        if rc != 0:
            d["violations"] = d.get("violations", 0) + 1
        json.dump(d, open(ev, "w"), indent=1)
    return rc

if __name__ == "__main__":
    sys.exit(main())

#!/usr/bin/env python3
"""Evaluates the seeded breaking changes under /verif/seeded/<change>/ against the checks.

Each change directory holds patch.diff, a demonstration (demo_test.go or demo.sh) and
meta.json, written by an independent sub-agent from the property text alone. For every
change: a scratch copy of /repo is patched (git apply), built, the existing tests are run
(must pass), the demonstration is run (must fail on the patched tree), and then the check
of the targeted property is run on the scratch copy. Results go to seeded/RESULTS.md and
seeded/results.json. usage: tools/seed_eval.py [-k substr] [--no-tests] [--all-props]
"""
import os, sys, json, shutil, subprocess, tempfile, glob, re

VERIF = os.path.dirname(os.path.dirname(os.path.abspath(__file__)))
REPO = os.environ.get("VERIF_REPO", "/repo")
GOVC = os.path.join(VERIF, "bin", "govc")
ENV = dict(os.environ, GOFLAGS="-mod=mod", GOPROXY="off", GOSUMDB="off", GOTOOLCHAIN="local")
# Every scratch copy compiles the module afresh (the cache key includes the
# directory), and the shared Go build cache once filled the disk (> 100 GB).
# Each invocation gets its own cache directory, removed when it ends; cleaning
# a shared cache while parallel jobs build made their builds fail.
import tempfile as _tf, atexit as _ae, shutil as _sh
_CACHE = _tf.mkdtemp(prefix="govc-seed-gocache-")
ENV["GOCACHE"] = _CACHE
_ae.register(lambda: _sh.rmtree(_CACHE, ignore_errors=True))

def sh(cmd, cwd, timeout=1800):
    p = subprocess.run(cmd, cwd=cwd, shell=True, capture_output=True, text=True, errors="replace", env=ENV, timeout=timeout)
    return p.returncode, p.stdout + p.stderr

def main():
    args = sys.argv[1:]
    filt = args[args.index("-k") + 1] if "-k" in args else None
    run_tests = "--no-tests" not in args
    all_props = "--all-props" in args
    dirs = sorted(d for d in glob.glob(os.path.join(VERIF, "seeded", "C*-*")) if os.path.isdir(d))
    if filt:
        dirs = [d for d in dirs if re.search(filt, os.path.basename(d))]
    prev = {}
    if "--first-run-out" in args:
        os.environ["SEED_FIRST_OUT"] = args[args.index("--first-run-out") + 1]
    rj = os.path.join(VERIF, "seeded", "results.json")
    if os.path.exists(rj):
        prev = {r["change"]: r for r in json.load(open(rj))}
    import threading
    from concurrent.futures import ThreadPoolExecutor
    lock = threading.Lock()
    jobs = int(args[args.index("-j") + 1]) if "-j" in args else 1
    counter = [0]
    def one(d):
        name = os.path.basename(d)
        meta = json.load(open(os.path.join(d, "meta.json")))
        prop = meta["property"]
        tmp = tempfile.mkdtemp(prefix="govc-seed-")
        res = {"change": name, "property": prop, "title": meta.get("title", "")}
        try:
            scratch = os.path.join(tmp, "repo")
            shutil.copytree(REPO, scratch, ignore=shutil.ignore_patterns(".git"))
            sh("git init -q && git add -A && git -c user.name=x -c user.email=x@x commit -qm base", scratch)
            def run_demo():
                demo_go = os.path.join(d, "demo_test.go")
                demo_sh = os.path.join(d, "demo.sh")
                if os.path.exists(demo_go) and not os.path.exists(demo_sh):  # a script that wraps the test (e.g. -race) wins
                    pkg = meta.get("demo_pkg_dir") or "."
                    shutil.copy(demo_go, os.path.join(scratch, pkg, "zz_seed_demo_test.go"))
                    m = re.findall(r"func (Test\w+)", open(demo_go).read())
                    rc, out = sh("go test -vet=off -count=1 -timeout 600s -run '^(%s)$' ./%s" % ("|".join(m), pkg), scratch)
                    os.remove(os.path.join(scratch, pkg, "zz_seed_demo_test.go"))
                elif os.path.exists(demo_sh):
                    rc, out = sh("sh " + demo_sh, scratch)
                else:
                    rc, out = 0, "no demonstration"
                return rc, out
            if "--base-demo" in args:
                rc, out = run_demo()
                res["demo_passes_on_base"] = rc == 0
            rc, out = sh("git apply " + os.path.join(d, "patch.diff"), scratch)
            if rc != 0:
                res["status"] = "patch-does-not-apply"; res["detail"] = out[-400:]
                print(name, res["status"]); prev[name] = res; return
            rc, out = sh("go build ./...", scratch)
            res["builds"] = rc == 0
            if run_tests:
                rc, out = sh("go test -vet=off -count=1 ./...", scratch)
                if rc != 0:  # one retry: the pty-based cmd/age scripts are flaky
                    rc, out = sh("go test -vet=off -count=1 ./...", scratch)
                res["tests_pass"] = rc == 0
            # demonstration
            demo_go = os.path.join(d, "demo_test.go")
            demo_sh = os.path.join(d, "demo.sh")
            if os.path.exists(demo_go) and not os.path.exists(demo_sh):  # a script that wraps the test (e.g. -race) wins
                pkg = meta.get("demo_pkg_dir") or "."
                shutil.copy(demo_go, os.path.join(scratch, pkg, "zz_seed_demo_test.go"))
                m = re.findall(r"func (Test\w+)", open(demo_go).read())
                rc, out = sh("go test -vet=off -count=1 -timeout 600s -run '^(%s)$' ./%s" % ("|".join(m), pkg), scratch)
                os.remove(os.path.join(scratch, pkg, "zz_seed_demo_test.go"))
            elif os.path.exists(demo_sh):
                rc, out = sh("sh " + demo_sh, scratch)
            else:
                rc, out = 0, "no demonstration"
            res["demo_fails_on_patched"] = rc != 0 and "VIOLATION" in out
            # the check
            props = [prop]
            files_opt = ""
            if "--fast" in args:
                # contracts are modular: only functions in the files the patch touches
                # have different obligations (whole-program structural checks still run)
                fl = sorted(set(re.findall(r"^\+\+\+ b/(\S+\.go)", open(os.path.join(d, "patch.diff")).read(), re.M)))
                if fl:
                    files_opt = " -files " + ",".join(fl)
            rc, out = sh("%s -repo %s -verif %s -prop %s -no-evidence -replaydir %s%s" % (GOVC, scratch, VERIF, prop, os.path.join(tmp, "replay"), files_opt), VERIF)
            viol = sorted(set(re.findall(r"^VIOLATION property=%s replay=\S*?/([^/\s]+)\.json" % prop, out, re.M)))
            res["check_rc"] = rc
            res["obligations_reported"] = viol[:12]
            res["caught"] = rc == 1 and bool(viol)
            if not res["caught"] and all_props:
                rc, out = sh("%s -repo %s -verif %s -no-evidence -replaydir %s" % (GOVC, scratch, VERIF, os.path.join(tmp, "replay")), VERIF)
                others = sorted(set(re.findall(r"^VIOLATION property=(C\d+)", out, re.M)))
                res["caught_by_other_properties"] = others
            res["status"] = "caught" if res["caught"] else "MISSED"
            print("%-8s %-8s tests_pass=%s demo_fails=%s %s" % (res["status"], name, res.get("tests_pass"), res["demo_fails_on_patched"], ",".join(viol[:3])))
            with lock:
                prev[name] = res
                json.dump([prev[k] for k in sorted(prev)], open(rj, "w"), indent=1)
        finally:
            shutil.rmtree(tmp, ignore_errors=True)
    with ThreadPoolExecutor(max_workers=jobs) as ex:
        list(ex.map(one, dirs))
    allres = [prev[k] for k in sorted(prev)]
    json.dump(allres, open(rj, "w"), indent=1)
    if os.environ.get("SEED_FIRST_OUT"):
        fo = os.path.join(VERIF, "seeded", os.environ["SEED_FIRST_OUT"])
        have = {r["change"]: r for r in json.load(open(fo))} if os.path.exists(fo) else {}
        for d in dirs:  # a first-run verdict is never overwritten
            n = os.path.basename(d)
            if n in prev and n not in have:
                have[n] = prev[n]
        json.dump([have[k] for k in sorted(have)], open(fo, "w"), indent=1)
    with open(os.path.join(VERIF, "seeded", "RESULTS.md"), "w") as f:
        f.write("# Seeded breaking changes (written by independent sub-agents from the property text)\n\n")
        f.write("Generated by tools/seed_eval.py against the current /repo and contracts.\n\n")
        first = {}
        fr = os.path.join(VERIF, "seeded", "results_first_run.json")
        if os.path.exists(fr):
            import glob as _glob
            for frn in sorted(_glob.glob(os.path.join(VERIF, "seeded", "results_first_run*.json"))):
                for r in json.load(open(frn)):
                    first.setdefault(r["change"], r)
            f.write("`first run` is the verdict of the checks as they stood BEFORE the change was seen (per round: 46/59, 49/60, 29/40, 29/39, 25/38, 25/38, 12/19, 19/21, 24/26; files results_first_run*.json); every change missed then led to a strengthened contract or engine fix, listed in DESIGN.md sections 8.6-8.14. Patches marked \"rebased\" in their meta.json were re-done on top of later fix: commits.\n\n")
        f.write("| change | property | first run | now | tests still pass | demo fails on patched | obligations reported / note |\n|---|---|---|---|---|---|---|\n")
        for r in allres:
            r = dict(r)
            r["first"] = first.get(r["change"], {}).get("status", "-")
            if r.get("tests_pass") is None and r["change"] in first:
                r["tests_pass"] = first[r["change"]].get("tests_pass")
            note = ", ".join(r.get("obligations_reported", [])[:4])
            if r.get("note"):
                note = (note + " — " if note else "") + r["note"]
            f.write("| %s %s | %s | %s | %s | %s | %s | %s |\n" % (r["change"], r.get("title", "").replace("|", "/"), r["property"], r["first"], r.get("status"), r.get("tests_pass"), r.get("demo_fails_on_patched"), note))
    n = sum(1 for r in allres if r.get("status") == "caught")
    print("seed_eval: %d/%d caught" % (n, len(allres)))

if __name__ == "__main__":
    main()

#!/bin/sh
# usage: tools/import_seeds.sh <agent out dir (containing 1/ 2/ 3/)> <property id>
# copies each change into /verif/seeded/<id>-<next number>/ (patch.diff, demo, meta.json)
set -e
OUT="$1"; ID="$2"
for n in 1 2 3 4 5; do
  [ -f "$OUT/$n/patch.diff" ] || continue
  k=1; while [ -d "/verif/seeded/$ID-$k" ]; do k=$((k+1)); done
  D="/verif/seeded/$ID-$k"; mkdir -p "$D"
  cp "$OUT/$n/patch.diff" "$OUT/$n/meta.json" "$D/"
  for f in demo_test.go demo.sh; do [ -f "$OUT/$n/$f" ] && cp "$OUT/$n/$f" "$D/"; done
  grep -q "_verif.go" "$D/patch.diff" && echo "WARNING: $D patch touches a _verif.go file"
  echo "$D"
done

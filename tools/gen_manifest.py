#!/usr/bin/env python3
"""Regenerates /verif/MANIFEST.json from the table below (kept valid at all times)."""
import json, subprocess

PROPS = [json.loads(l)["id"] for l in open("/verif/properties.jsonl")]

TECH = "contract-based deductive verification (govc: VCs from go/ssa of /repo + //@ contracts, discharged by z3/cvc5)"

CLAIMS = {
 "C01": ("proof of every stage contract: Wrap/unwrap of X25519 and scrypt stanzas as spec terms (body = seal(hkdf/scrypt key, zero nonce, file key)); multiUnwrap returns the first stanza whose error does not wrap ErrIncorrectIdentity; Decrypt consults identities in order and none after the first that opens (ghost call log); Encrypt assembles header, MAC, nonce and stream writer from one file key; stream Writer/Reader chunk contracts (seal/open per counter nonce). Composition of the stages into the end-to-end sentence is by the stated functional laws, not mechanised.",
         "AEAD/X25519/HKDF/scrypt as uninterpreted functions with functional laws; Header.MarshalWithoutMAC output assumed to be a function of the stanza fields (hdrbytes); library contracts listed in evidence; the end-to-end composition of the stage contracts is not mechanised"),
 "C02": ("proof: readChunk/Read accept a chunk only if it opens under nonceOf(counter, final flag); counter increments exactly once per chunk (incNonce proved for all 2^88 counters); empty final chunk only if first; short read implies final; errors are sticky and never io.EOF on truncation; clean EOF requires the probe to return no data; Decrypt derives the payload key from the authenticated file key and the 16 nonce bytes read from the payload.",
         "AEAD unforgeability is cryptographic (not a contract); io.Reader/io.ReadFull contracts over a prophecy ghost stream"),
 "C03": ("proof: on every path on which Decrypt returns a reader, hmac.Equal was called exactly once on the whole computed MAC and the whole hdr.MAC and returned true; the MAC is HMAC-SHA256 under HKDF(file key, no salt, 'header') of the header serialisation; headerMAC and Header.Marshal pinned at call sites.",
         "HMAC security assumed; header serialisation covers every stanza field: assumed (hdrbytes reads Header.Recipients, Stanza.Type/Args/Body)"),
 "C04": ("proof: X25519 and scrypt unwrap map AEAD failure to exactly ErrIncorrectIdentity and return no key with any error; Decrypt returns NoIdentityMatchError with one collected cause per identity, each wrapping ErrIncorrectIdentity, when every Unwrap reported a no-match; no reader without a key returned with nil error.",
         "that a foreign key fails to open is cryptographic; Identity.Unwrap interface contract (err != nil ==> no key) assumed for custom identities, proved for native ones"),
 "C05": ("proof of call-site obligations pinning every constant of the age v1 format independently on the writing and the reading side: HKDF hash/salt order/info labels, scrypt salt prefix/N/r/p/key length, zero AEAD nonce, 16-byte file key and nonce, 'header'/'payload' derivations, chunk size and nonce layout (11-byte big-endian counter + flag), intro line, '->' and '---' prefixes (package initialisers checked on SSA).",
         "frozen-corpus / independent-encoder half of the property is differential testing and is not decided by this technique"),
 "C06": ("proof via provenance by value: file key, payload nonce, X25519 ephemeral scalar and scrypt salt equal csprng(draw index) of a crypto/rand.Read made in the same call, with distinct draw indices; both X25519 calls use that scalar; stream nonces are counter-from-zero with the final flag set only by Close, and a closed Writer cannot seal again.",
         "quality/distinctness of CSPRNG output is probabilistic; the plugin client's grease values are not traced to a CSPRNG draw"),
 "C07": ("proof of leaf and structural contracts: isValidString iff all bytes in 33..126 (rune abstraction); splitArgs re-joins to the line; ReadStanza sticky error, valid type/args, body lines of exactly 48 decoded bytes until a short one, progress; Parse rejects with (nil,nil), 32-byte MAC, payload is a suffix of the input stream in both the bufio and MultiReader branches; writeWrapped emits exactly wrapcols(written, p) (64-column wrapping proved against a recursive spec); DecodeString strict/canonical.",
         "text-level inverse lemmas (Parse o Marshal = id) are not mechanised; base64 encoder composition assumed; bufio/strings contracts assumed"),
 "C08": ("proof of the armor state machines: the writer emits the BEGIN line exactly once and before any encoded byte (also when Close is the first call), Close emits the END line preceded by a newline iff the last base64 line is non-empty and its output is BEGIN-less text = out0 ++ wrapcols(0, base64(data)) ++ footer; the reader stores and returns every failure as *armor.Error, never returns data after an error, accepts only lines of at most 64 columns of strict padded base64, rejects empty body lines, requires the END line right after a short line, decodes one line per refill and bounds leading/trailing whitespace by 1024 bytes.",
         "standard base64 encoder/decoder contracts assumed (stdb64ok/stdb64dec uninterpreted); composition of base64.NewEncoder with the proved writeWrapped assumed; text-level re-armor identity not mechanised"),
 "C09": ("proof: polymod is the fold of polystep over its input from state 1 (loop invariant, code vs spec with xor uninterpreted); polystep is GF(2)-linear, keeps 30 bits, and the six checksum symbols close the register to 1 (three QF_BV lemmas, for all 2^30 states and all symbol values); Decode accepts only printable ASCII, single case, last '1' separator at 1 <= pos <= len-7, charset symbols < 32, at least six data symbols; convertBits emits tobits-bit symbols and returns no data with an error; ParseX25519Recipient/Identity accept exactly HRP 'age' / 'AGE-SECRET-KEY-' and 32-byte payloads; String() encodes under those HRPs; validPluginName iff every rune is in the 66-character allow-list; plugin Parse*/Encode* return names only if valid.",
         "strings.ToLower/ToUpper given the honest (ASCII-only) contract; the <=4-substitution claim additionally needs the exhaustive syndrome enumeration (thorough tier); 5<->8 bit regrouping round trip not mechanised"),
 "C10": ("proof: ScryptIdentity.Unwrap rejects (non-EII error, no scrypt.Key call) whenever a scrypt stanza is not the only stanza, at any position; unwrap calls scrypt.Key only with a canonical decimal work factor 1..maxWorkFactor, N = 2^logN, r=8, p=1; WrapWithLabels returns one fresh 128-bit hex label; digitsRe initialiser pinned to ^[1-9][0-9]*$; NewScryptRecipient/NewScryptIdentity keep the passphrase byte for byte; the CLI's LazyScryptIdentity refuses a mixed header before prompting and hands the unfiltered stanza list to ScryptIdentity.Unwrap.",
         "two fresh 128-bit labels differ: probabilistic"),
 "C11": ("proof: slicesEqual iff element-wise equal; Encrypt sorts every recipient's labels (count ghost), compares each later recipient against the first, and on every refusing return (no recipients, wrap error, incompatible labels) dst's ghost output is unchanged and Header.Marshal has not been called.",
         "sort.Strings is a sorting permutation: assumed; multiset semantics of the comparison follows from that"),
 "C12": ("proof over ghost streams: Writer.Write reports the full count on success, holds back at most one chunk and flushes a full buffer only when more data arrives (counting invariant on the nonce counter), output of flush/Close is a function of the buffered bytes only; Reader consumes at most one chunk plus the one-byte probe per call and releases buffered plaintext position for position; io.Reader contracts quantify over every delivery schedule including data-with-EOF.",
         "bufio / io.ReadFull contracts assumed; armor reader not yet under contract"),
 "C13": ("proof: flushChunk returns the destination's error and on nil error the whole sealed chunk reached dst; Write/Close store and return the first error and keep returning it; Close leaves the writer closed; Encrypt returns an error whenever Header.Marshal or the nonce write fails; Reader stores every error, never maps a source failure to io.EOF.",
         "io.Writer law n < len(p) ==> err != nil assumed of the destination"),
 "C14": ("proof: zero-annotation safety sweep (index, slice bounds, nil dereference, type assertion, division, signed overflow, explicit panic unreachable) plus a decreasing variant for every annotated loop, for every function under contract in age, internal/stream, internal/format, internal/bech32, armor, agessh, plugin and the cmd packages (except the functions marked nosafety, listed in the evidence); scrypt work bounded by the C10 call-site obligation; the armor reader consumes at most twice its counted whitespace before the header.",
         "library internals assumed panic-free and terminating; < 2^88 chunks per stream; struct values built by callers are assumed well-formed (e.g. RSAIdentity.k non-nil): the property quantifies over input bytes"),
 "C15": ("proof: errorf, errorWithHint, exit and age-keygen's errorf never return (so every failure path ends the process with a non-zero status); decrypt and encrypt return normally only if age.Decrypt/age.Encrypt, the output-opening write, io.Copy, the stream Close and (with -a) the armor Close each ran exactly once and returned a nil error (per-call-site ghost counters and last-error ghosts, also inside deferred closures); decrypt touches the output at least once and only after age.Decrypt succeeded, so a header-level refusal neither creates nor modifies the -o file; lazyOpener creates the file on the first Write only, exactly once, never reopens it, keeps the creation error sticky, and Close reports the file's Close error; newLazyOpener opens nothing; main refuses the output unless its canonical absolute path differs from that of every -i file, every -R file and the input file (loop invariants with an existential witness in inUseFiles); the mode wrappers pass in/out/armor through unchanged and call decrypt/encrypt exactly once; age-keygen opens its output with exactly O_WRONLY|O_CREATE|O_EXCL and mode 0600, closes it with the error checked, and generate/convert return only if every key/recipient line was written with a nil error.",
         "exit status is modelled as 'returns normally from main' (0) versus 'ends in a non-returning call' (non-zero); the prefix-of-plaintext half is carried by the stream Reader contracts of C02/C12 (plaintext released only after authentication), not re-proved here; filepath.Abs assumed deterministic (canonical path as an uninterpreted function); flag package, os.Create/OpenFile, io.Copy and fmt.Fprintf contracts assumed; run-time safety of main is not checked (nosafety)"),
 "C16": ("proof for every message the plugin may send (one symbolic loop iteration against ReadStanza's contract stands for any message at any point): phase 1 of both state machines writes exactly add-recipient|add-identity <encoding>, grease-<hex>, wrap-file-key with the file key (resp. one recipient-stanza 0 <type> <args> <body> per stanza, in order), extension-labels, done - each exactly once (call-site execution counters); 'ok' is written for a recipient-stanza only after index 0 was validated; a second labels or file-key message is an error (counter invariant; empty file keys are rejected); 'error' is acknowledged then aborts; unknown commands get exactly one 'unsupported' and change nothing; zero stanzas / no file key are errors, the latter wrapping ErrIncorrectIdentity through the %w wrappers; ClientUI.handle answers every known command exactly once with the prescribed reply for every combination of nil and failing callbacks; every loop consumes input (termination relative to the plugin's stream).",
         "the plugin process is a ghost stanza stream; process creation and pipes assumed (openClientConnection's body is mostly OS calls); UI callbacks assumed not to touch protocol state"),
 "C17": ("proof: validPluginName iff every rune is in the 66-character allow-list; ParseRecipient/ParseIdentity/EncodeIdentity/EncodeRecipient and NewRecipient/NewIdentity/NewIdentityWithoutData return a name only if valid and start no process; execabs.Command is called (at most once per wrap/unwrap) with exactly 'age-plugin-'+name and only if the name has no path separator (when the test-only path override is empty); cmd/age constructs plugins only from the -r/-i/-j argument strings; native Unwrap/Parse functions do not reach execabs.Command.",
         "execabs/PATH semantics are the OS's; testOnlyPluginPath is written only by tests (not checked)"),
 "C18": ("proof: ParseIdentities, ParseRecipients and the CLI's parseIdentities/parseRecipientsFile return exactly keycount(lines read) keys (loop invariant len(result) == number of non-empty non-# lines so far, so no key line can be skipped; the CLI variant counts its documented warnings), abort at the first failing line with the 1-based line number n == lines scanned, fail on an empty result; the recipients-file error formats are pinned to constant strings whose only operands are the file name and the line number (no line content, no inner error).",
         "bufio.Scanner line semantics assumed (linetext/keycount are ghost functions of the scanner); ParseX25519Identity's own error text may quote the HRP"),
 "C19": ("proof for EncryptedSSHIdentity.Unwrap: the passphrase callback is not called unless some stanza has the declared key type and tag (loop invariant over all stanzas), it is called at most once, never when a validated key is cached; i.decrypted changes only on the path on which the parsed key compared equal to the declared public key after exactly one prompt, and is never set to a typed nil.",
         "ssh key parsing and PublicKey.Equal are library code with assumed contracts; that a cached key is the right one rests on Equal"),
 "C20": ("proof of frame obligations for Wrap/WrapWithLabels/Unwrap/unwrap/Recipient/String of X25519, scrypt, ssh-rsa and ssh-ed25519 recipients and identities: every store, copy, in-place append and callee effect targets memory allocated during the call (or the ghost counters named in the modifies clause), and no object or region that existed at entry changes (one quantified obligation per touched heap array, including same-value writes); no function of the library packages assigns a package-level variable outside init (SSA scan). Read-only sharing implies data-race freedom and schedule-independent results by the Go memory model (reduction argument, not mechanised).",
         "interleavings are not explored; frames of library callees (curve25519, rsa, ssh, hkdf) are assumed by their contracts"),
}

NOT_YET = {
}

def main():
    hooks = subprocess.run(["git", "-C", "/repo", "log", "--format=%h %s"], capture_output=True, text=True).stdout.strip().split("\n")
    hook_commits = [l.split()[0] for l in hooks if "verif hook" in l]
    checks = []
    for p in PROPS:
        if p in CLAIMS:
            text, note = CLAIMS[p]
            checks.append({
                "property_id": p,
                "quick_cmd": f"./check {p} quick",
                "thorough_cmd": f"./check {p} thorough",
                "evidence_file": f"/verif/evidence/{p}.json",
                "replay_cmd_template": "cat {path}",
                "engine": "govc",
                "level_claimed": {"category": "proof", "text": text, "design_ref": "DESIGN.md section 3 / " + p},
                "level_note": note,
                "technique": TECH,
            })
    m = {
        "version": 1,
        "setup_cmd": "cd /verif/govc && GOFLAGS=-mod=mod GOPROXY=off GOSUMDB=off GOTOOLCHAIN=local go build -o /verif/bin/govc .",
        "hooks": {"guard": "verif", "enable": "-tags verif (contract files zz_contracts_verif.go are read by govc; they contain no code the packages call)",
                  "baseline_off_cmd": "cd /repo && go test -vet=off -count=1 ./...", "source_commits": hook_commits, "add_only": True},
        "engines": [{"name": "govc", "path": "/verif/govc", "serves_properties": sorted(CLAIMS),
                     "kind_free_text": "contract-based deductive verifier for Go written for this task: VC generation by forward symbolic execution over go/ssa (NaiveForm) of /repo's working tree, contracts as //@ comments in //go:build verif files, obligations discharged by racing z3 5.1.0, z3 4.8.12 and cvc5 1.0.3"}],
        "checks": checks,
        "notes": "see DESIGN.md; known findings in known-findings.txt; must-fail corpus in selftest/",
        "not_applicable": [{"property_id": p, "reason": NOT_YET[p]} for p in PROPS if p not in CLAIMS],
    }
    json.dump(m, open("/verif/MANIFEST.json", "w"), indent=1)

main()
